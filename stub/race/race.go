// Package race stands in for internal/race with the race detector disabled.
package race

import "unsafe"

const Enabled = false

func Acquire(addr unsafe.Pointer)                        {}
func Release(addr unsafe.Pointer)                        {}
func ReleaseMerge(addr unsafe.Pointer)                   {}
func Disable()                                           {}
func Enable()                                            {}
func Read(addr unsafe.Pointer)                           {}
func Write(addr unsafe.Pointer)                          {}
func ReadRange(addr unsafe.Pointer, len int)             {}
func WriteRange(addr unsafe.Pointer, len int)            {}
func Errors() int                                        { return 0 }
func ReadPC(addr unsafe.Pointer, callerpc, pc uintptr)   {}
func WritePC(addr unsafe.Pointer, callerpc, pc uintptr)  {}
func ReadObjectPC(t, addr unsafe.Pointer, a, b uintptr)  {}
func WriteObjectPC(t, addr unsafe.Pointer, a, b uintptr) {}
