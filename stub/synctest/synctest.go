// Package synctest stands in for internal/synctest outside any bubble.
package synctest

type Association int

const (
	Unbubbled     = Association(iota) // not associated with any bubble
	CurrentBubble                     // associated with the current bubble
	OtherBubble                       // associated with a different bubble
)

func IsInBubble() bool                    { return false }
func Associate[T any](p *T) Association   { return Unbubbled }
func Disassociate[T any](p *T)            {}
func IsAssociated[T any](p *T) bool       { return false }
