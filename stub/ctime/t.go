// Package ctime stands in for llgo's clite/time.
package ctime

type TimeT int64

func Time(*TimeT) TimeT { return 0 }
