// Package clite stands in for llgo's runtime/internal/clite C helpers used by
// the lifted runtime sources (plain Go equivalents).
package clite

import "unsafe"

type Int = int32
type Pointer = unsafe.Pointer

func Memcpy(dst, src unsafe.Pointer, n uintptr) unsafe.Pointer {
	if n > 0 {
		copy(unsafe.Slice((*byte)(dst), n), unsafe.Slice((*byte)(src), n))
	}
	return dst
}

// Memmove: Go's copy handles overlapping ranges.
func Memmove(dst, src unsafe.Pointer, n uintptr) unsafe.Pointer {
	if n > 0 {
		copy(unsafe.Slice((*byte)(dst), n), unsafe.Slice((*byte)(src), n))
	}
	return dst
}

func Memset(dst unsafe.Pointer, c Int, n uintptr) unsafe.Pointer {
	b := unsafe.Slice((*byte)(dst), n)
	for i := range b {
		b[i] = byte(c)
	}
	return dst
}

func Advance(p unsafe.Pointer, off int) unsafe.Pointer { return unsafe.Add(p, off) }
