// Package catomic stands in for llgo's clite/sync/atomic (C11 atomics).
package catomic

func Or(ptr *uint, v uint) uint { old := *ptr; *ptr |= v; return old }
