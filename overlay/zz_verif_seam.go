//go:build verif

package build

// Fault-injection seam for the build-cache code (supplied through go build
// -overlay by /verif; never part of /repo).  The cache functions in cache.go,
// collect.go and createArchiveFile reach the file system through vos; every
// call is a numbered point at which the verification harness can kill the
// process (VERIF_CRASH_AT=k, optionally tearing a write in half with
// VERIF_CRASH_TORN=1; or VERIF_CRASH_MATCH=op|substr|suffix to die just before
// a particular operation; or VERIF_CRASH_WRITE=substr|substr2 to die at the
// first write to a matching path, with VERIF_CRASH_TORN=1 after half of it) or
// make the call fail (VERIF_FSERR=k:errno, VERIF_FSERR_MATCH).  With none of
// these variables set the seam only forwards.
//
// Concurrent builders: with VERIF_GATE=<dir> every numbered point first
// announces itself on the named pipe <dir>/req ("<k> <op> <path>") and waits for
// one byte on <dir>/ack.  The harness runs several llgo processes on one cache
// directory this way and releases exactly one of them at a time, so that the
// interleaving of their cache operations is the harness's (seeded, recorded)
// decision: 'g' go on, 'k' die here (kill -9), 't' die half-way through this
// write, 'e' this operation fails with ENOSPC.

import (
	"fmt"
	"io/fs"
	"os"
	"strconv"
	"strings"
	"syscall"
)

type verifOS struct{}

var vos verifOS

var verifOps int
var verifMatched bool

var (
	verifGateReq, verifGateAck *os.File
	verifGateOff               bool
	verifTornNow               bool
)

// verifGate parks the process until the harness releases it; it returns the
// harness's order for this operation.
func verifGate(k int, op, path string) byte {
	dir := os.Getenv("VERIF_GATE")
	if dir == "" || verifGateOff {
		return 'g'
	}
	if verifGateReq == nil {
		var err error
		if verifGateReq, err = os.OpenFile(dir+"/req", os.O_WRONLY, 0); err != nil {
			verifGateOff = true
			return 'g'
		}
		if verifGateAck, err = os.OpenFile(dir+"/ack", os.O_RDONLY, 0); err != nil {
			verifGateOff = true
			return 'g'
		}
	}
	fmt.Fprintf(verifGateReq, "%d %s %s\n", k, op, path)
	var b [1]byte
	if n, _ := verifGateAck.Read(b[:]); n != 1 {
		verifGateOff = true // the harness has gone away
		return 'g'
	}
	return b[0]
}

func verifPoint(op, path string) error {
	verifOps++
	k := verifOps
	switch verifGate(k, op, path) {
	case 'k':
		os.Exit(137)
	case 't':
		if op != "write" {
			os.Exit(137)
		}
		verifTornNow = true
	case 'e':
		if op != "stat" && op != "readfile" && op != "open" && op != "readdir" {
			return &fs.PathError{Op: op, Path: path, Err: syscall.ENOSPC}
		}
	}
	if log := os.Getenv("VERIF_OPLOG"); log != "" {
		if f, err := os.OpenFile(log, os.O_APPEND|os.O_CREATE|os.O_WRONLY, 0o644); err == nil {
			fmt.Fprintf(f, "%d %s %s\n", k, op, path)
			f.Close()
		}
	}
	if v := os.Getenv("VERIF_CRASH_AT"); v != "" {
		if n, _ := strconv.Atoi(v); n == k && !(op == "write" && os.Getenv("VERIF_CRASH_TORN") != "") {
			os.Exit(137) // no deferred clean-up runs, as after kill -9
		}
	}
	if v := os.Getenv("VERIF_CRASH_MATCH"); v != "" {
		// "<op>|<substring of the path>|<suffix of the path>": die just before the first such operation
		m := strings.SplitN(v, "|", 3)
		if len(m) == 3 && m[0] == op && strings.Contains(path, m[1]) && strings.HasSuffix(path, m[2]) {
			os.Exit(137)
		}
	}
	if v := os.Getenv("VERIF_FSERR_MATCH"); v != "" {
		// "<op>|<substring of the path>|<second substring>": the first such operation fails with ENOSPC
		m := strings.SplitN(v, "|", 3)
		if len(m) == 3 && m[0] == op && strings.Contains(path, m[1]) && strings.Contains(path, m[2]) && !verifMatched {
			verifMatched = true
			return &fs.PathError{Op: op, Path: path, Err: syscall.ENOSPC}
		}
	}
	if v := os.Getenv("VERIF_FSERR"); v != "" {
		parts := strings.SplitN(v, ":", 2)
		if n, _ := strconv.Atoi(parts[0]); n == k && op != "stat" && op != "readfile" && op != "open" && op != "readdir" {
			e := syscall.ENOSPC
			if len(parts) == 2 && parts[1] == "EIO" {
				e = syscall.EIO
			}
			return &fs.PathError{Op: op, Path: path, Err: e}
		}
	}
	return nil
}

func (verifOS) Stat(name string) (os.FileInfo, error) {
	if err := verifPoint("stat", name); err != nil {
		return nil, err
	}
	return os.Stat(name)
}

func (verifOS) MkdirAll(path string, perm os.FileMode) error {
	if err := verifPoint("mkdirall", path); err != nil {
		return err
	}
	return os.MkdirAll(path, perm)
}

func (verifOS) Remove(name string) error {
	if err := verifPoint("remove", name); err != nil {
		return err
	}
	return os.Remove(name)
}

func (verifOS) RemoveAll(name string) error {
	if err := verifPoint("removeall", name); err != nil {
		return err
	}
	return os.RemoveAll(name)
}

func (verifOS) Rename(oldpath, newpath string) error {
	if err := verifPoint("rename", newpath); err != nil {
		return err
	}
	verifDurable("rename", oldpath+" "+newpath)
	return os.Rename(oldpath, newpath)
}

// verifDurable keeps the record a simulated power cut needs (VERIF_DURLOG):
// which files were made durable (sync) before they got their final name
// (rename).  It is not a numbered operation.
func verifDurable(what, arg string) {
	if log := os.Getenv("VERIF_DURLOG"); log != "" {
		if f, err := os.OpenFile(log, os.O_APPEND|os.O_CREATE|os.O_WRONLY, 0o644); err == nil {
			fmt.Fprintf(f, "%s %s\n", what, arg)
			f.Close()
		}
	}
}

func (verifOS) ReadFile(name string) ([]byte, error) {
	if err := verifPoint("readfile", name); err != nil {
		return nil, err
	}
	return os.ReadFile(name)
}

func (verifOS) ReadDir(name string) ([]os.DirEntry, error) {
	if err := verifPoint("readdir", name); err != nil {
		return nil, err
	}
	return os.ReadDir(name)
}

// verifFile exposes only the methods the cache code uses, so that io.Copy goes
// through Write (no ReadFrom/WriteTo short cut).
type verifFile struct{ f *os.File }

func (verifOS) CreateTemp(dir, pattern string) (*verifFile, error) {
	if err := verifPoint("createtemp", dir+"/"+pattern); err != nil {
		return nil, err
	}
	f, err := os.CreateTemp(dir, pattern)
	if err != nil {
		return nil, err
	}
	return &verifFile{f}, nil
}

func (verifOS) OpenFile(name string, flag int, perm os.FileMode) (*verifFile, error) {
	if err := verifPoint("openfile", name); err != nil {
		return nil, err
	}
	f, err := os.OpenFile(name, flag, perm)
	if err != nil {
		return nil, err
	}
	return &verifFile{f}, nil
}

func (verifOS) Create(name string) (*verifFile, error) {
	return vos.OpenFile(name, os.O_RDWR|os.O_CREATE|os.O_TRUNC, 0o666)
}

// WriteFile is open + write + close, so that a kill or a disk error can land
// between them as it can in os.WriteFile.
func (verifOS) WriteFile(name string, data []byte, perm os.FileMode) error {
	f, err := vos.OpenFile(name, os.O_WRONLY|os.O_CREATE|os.O_TRUNC, perm)
	if err != nil {
		return err
	}
	_, err = f.Write(data)
	if err1 := f.Close(); err1 != nil && err == nil {
		err = err1
	}
	return err
}

func (verifOS) Open(name string) (*verifFile, error) {
	if err := verifPoint("open", name); err != nil {
		return nil, err
	}
	f, err := os.Open(name)
	if err != nil {
		return nil, err
	}
	return &verifFile{f}, nil
}

func (v *verifFile) Name() string               { return v.f.Name() }
func (v *verifFile) Read(p []byte) (int, error) { return v.f.Read(p) }

func (v *verifFile) Write(p []byte) (int, error) {
	if w := os.Getenv("VERIF_CRASH_WRITE"); w != "" {
		// "<substring of the path>|<second substring>": die at the first write to such a file
		m := strings.SplitN(w, "|", 2)
		if len(m) == 2 && strings.Contains(v.f.Name(), m[0]) && strings.Contains(v.f.Name(), m[1]) {
			verifPoint("write", v.f.Name())
			if os.Getenv("VERIF_CRASH_TORN") != "" {
				v.f.Write(p[:len(p)/2])
			}
			os.Exit(137)
		}
	}
	if err := verifPoint("write", v.f.Name()); err != nil {
		return 0, err
	}
	if verifTornNow {
		v.f.Write(p[:len(p)/2]) // torn write ordered by the harness, then the process dies
		os.Exit(137)
	}
	if c := os.Getenv("VERIF_CRASH_AT"); c != "" && os.Getenv("VERIF_CRASH_TORN") != "" {
		if n, _ := strconv.Atoi(c); n == verifOps {
			v.f.Write(p[:len(p)/2]) // torn write, then the process dies
			os.Exit(137)
		}
	}
	return v.f.Write(p)
}

func (v *verifFile) WriteString(s string) (int, error) { return v.Write([]byte(s)) }

func (v *verifFile) Sync() error {
	if err := verifPoint("sync", v.f.Name()); err != nil {
		return err
	}
	verifDurable("sync", v.f.Name())
	return v.f.Sync()
}

func (v *verifFile) Close() error {
	if err := verifPoint("close", v.f.Name()); err != nil {
		v.f.Close()
		return err
	}
	return v.f.Close()
}
