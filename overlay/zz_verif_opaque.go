//go:build verif

package ssa

import "github.com/xgo-dev/llvm"

// LLVM 14 (the only LLVM in the verification sandbox) defaults to typed
// pointers; llgo emits opaque-pointer IR.
func init() { llvm.ParseCommandLineOptions([]string{"llgo", "-opaque-pointers"}, "") }
