module verif

go 1.26

require github.com/anishathalye/porcupine v1.3.0
