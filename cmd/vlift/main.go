// vlift copies ("lifts") source files of the code under test from the working
// tree into a scratch package, changing only what binds them to seams:
// import paths, selected package-qualified selectors, the package clause, and
// linker directive comments.  Control flow, fields and constants stay the
// working tree's.  Usage: vlift -spec spec.json -repo /repo -out <scratch module root>
package main

import (
	"bytes"
	"crypto/sha256"
	"encoding/hex"
	"encoding/json"
	"flag"
	"fmt"
	"go/ast"
	"go/format"
	"go/parser"
	"go/token"
	"os"
	"path/filepath"
	"sort"
	"strconv"
	"strings"
)

type Pkg struct {
	Out       string            `json:"out"`       // directory relative to -out
	Name      string            `json:"name"`      // new package name
	Files     []string          `json:"files"`     // ${REPO}/..., ${GOROOT}/...
	Imports   map[string]string `json:"imports"`   // import path -> new import path
	Selectors map[string]string `json:"selectors"` // "os.Rename" -> "simos.Rename"
	SelPkgs   map[string]string `json:"selpkgs"`   // every selector on package "os" listed in SelNames -> other package
	AddImport map[string]string `json:"addimport"` // name -> path, added to files that use it after rewriting
	DropFuncs []string          `json:"dropfuncs"` // function / method names to delete (glue supplies them)
	DropDecls []string          `json:"dropdecls"` // type/var/const names to delete
	Bodyless  bool              `json:"dropbodyless"`
	Glue      []string          `json:"glue"` // files (relative to /verif) copied in as .go
	Need      []string          `json:"need"` // top-level identifiers that must exist after lifting
	Strip     []string          `json:"stripbuildtags"`
	SelFuncs  []string          `json:"selfuncs"`       // if set, selector rewriting applies only inside these functions/methods
	OutNames  bool              `json:"plainnames"`     // write lifted_<base> without package prefixing (overlay use)
	ResetFunc string            `json:"resetfunc"`      // generate a function of this name that puts every package-level variable of the lifted files back to its initial value
	LoopGuard string            `json:"loopguard"`      // name of a glue function called at the head of every for-loop body (bounded-progress detection)
	KeepDirs  bool              `json:"keepdirectives"` // leave //go: directive comments alone (build constraints of helper packages)
	Extract   []Extract         `json:"extract"`        // constants/variables copied verbatim from other files of the original package
}

type Extract struct {
	File    string   `json:"file"`
	Names   []string `json:"names"`
	Imports []string `json:"imports"` // import lines the copied declarations need, e.g. "unsafe" or "abi verif/lifted/abi"
}

type Spec struct {
	Packages []Pkg `json:"packages"`
}

var vars = map[string]string{}

func fail(format string, a ...any) {
	fmt.Fprintf(os.Stderr, "vlift: "+format+"\n", a...)
	os.Exit(2)
}

func main() {
	specPath := flag.String("spec", "", "")
	repo := flag.String("repo", "/repo", "")
	goroot := flag.String("goroot", "", "")
	out := flag.String("out", "", "")
	verif := flag.String("verif", "/verif", "")
	flag.Func("var", "NAME=value substituted for ${NAME} in file paths", func(v string) error {
		kv := strings.SplitN(v, "=", 2)
		if len(kv) != 2 {
			return fmt.Errorf("want NAME=value")
		}
		vars[kv[0]] = kv[1]
		return nil
	})
	flag.Parse()
	b, err := os.ReadFile(*specPath)
	if err != nil {
		fail("%v", err)
	}
	var spec Spec
	if err := json.Unmarshal(b, &spec); err != nil {
		fail("spec: %v", err)
	}
	for _, p := range spec.Packages {
		liftPkg(p, *repo, *goroot, *out, *verif)
	}
}

func liftPkg(p Pkg, repo, goroot, out, verif string) {
	dir := filepath.Join(out, p.Out)
	os.RemoveAll(dir)
	if err := os.MkdirAll(dir, 0o755); err != nil {
		fail("%v", err)
	}
	hashes := map[string]string{}
	have := map[string]bool{}
	var resetFuncs []string
	var files [][2]string // spec name, real path
	for _, f := range p.Files {
		src := strings.ReplaceAll(strings.ReplaceAll(f, "${REPO}", repo), "${GOROOT}", goroot)
		for k, v := range vars {
			src = strings.ReplaceAll(src, "${"+k+"}", v)
		}
		if strings.Contains(src, "*") {
			m, _ := filepath.Glob(src)
			sort.Strings(m)
			for _, x := range m {
				if !strings.HasSuffix(x, "_test.go") {
					files = append(files, [2]string{filepath.Join(filepath.Dir(f), filepath.Base(x)), x})
				}
			}
			continue
		}
		files = append(files, [2]string{f, src})
	}
	for _, ff := range files {
		f, src := ff[0], ff[1]
		data, err := os.ReadFile(src)
		if err != nil {
			fail("read %s: %v", src, err)
		}
		sum := sha256.Sum256(data)
		hashes[f] = hex.EncodeToString(sum[:])
		fset := token.NewFileSet()
		af, err := parser.ParseFile(fset, src, data, parser.ParseComments)
		if err != nil {
			fail("parse %s: %v", src, err)
		}
		rewrite(af, p)
		var resets []string
		if p.ResetFunc != "" {
			for _, d := range af.Decls {
				gd, ok := d.(*ast.GenDecl)
				if !ok || gd.Tok != token.VAR {
					continue
				}
				for _, sp := range gd.Specs {
					vs := sp.(*ast.ValueSpec)
					for i, n := range vs.Names {
						if n.Name == "_" {
							continue
						}
						var eb bytes.Buffer
						switch {
						case len(vs.Values) == len(vs.Names):
							format.Node(&eb, fset, vs.Values[i])
							resets = append(resets, fmt.Sprintf("\t%s = %s\n", n.Name, eb.String()))
						case vs.Type != nil && len(vs.Values) == 0:
							format.Node(&eb, fset, vs.Type)
							resets = append(resets, fmt.Sprintf("\t{\n\t\tvar z %s\n\t\t%s = z\n\t}\n", eb.String(), n.Name))
						}
					}
				}
			}
		}
		for _, d := range af.Decls {
			switch d := d.(type) {
			case *ast.FuncDecl:
				if d.Recv == nil {
					have[d.Name.Name] = true
				} else {
					have[recvName(d)+"."+d.Name.Name] = true
				}
			case *ast.GenDecl:
				for _, s := range d.Specs {
					switch s := s.(type) {
					case *ast.TypeSpec:
						have[s.Name.Name] = true
					case *ast.ValueSpec:
						for _, n := range s.Names {
							have[n.Name] = true
						}
					}
				}
			}
		}
		var buf bytes.Buffer
		if err := format.Node(&buf, fset, af); err != nil {
			fail("print %s: %v", src, err)
		}
		name := strings.NewReplacer("/", "_").Replace(filepath.Base(src))
		if p.ResetFunc != "" {
			// appended to the file itself so that the file's imports are in scope
			fn := p.ResetFunc + "_" + strings.NewReplacer(".", "_", "-", "_").Replace(name)
			fmt.Fprintf(&buf, "\n// %s: generated by the lifter.\nfunc %s() {\n%s}\n", fn, fn, strings.Join(resets, ""))
			resetFuncs = append(resetFuncs, fn)
		}
		outp := filepath.Join(dir, "lifted_"+name)
		if err := os.WriteFile(outp, buf.Bytes(), 0o644); err != nil {
			fail("%v", err)
		}
	}
	for xi, ex := range p.Extract {
		src := strings.ReplaceAll(ex.File, "${REPO}", repo)
		data, err := os.ReadFile(src)
		if err != nil {
			fail("read %s: %v", src, err)
		}
		sum := sha256.Sum256(data)
		hashes[ex.File+" (declarations "+strings.Join(ex.Names, ",")+")"] = hex.EncodeToString(sum[:])
		fset := token.NewFileSet()
		af, err := parser.ParseFile(fset, src, data, 0)
		if err != nil {
			fail("parse %s: %v", src, err)
		}
		want := map[string]bool{}
		for _, n := range ex.Names {
			want[n] = true
		}
		var sb strings.Builder
		fmt.Fprintf(&sb, "package %s\n\n", p.Name)
		for _, im := range ex.Imports {
			f := strings.Fields(im)
			if len(f) == 2 {
				fmt.Fprintf(&sb, "import %s %q\n", f[0], f[1])
			} else {
				fmt.Fprintf(&sb, "import %q\n", f[0])
			}
		}
		fmt.Fprintf(&sb, "\n// declarations copied verbatim from %s\n", filepath.Base(src))
		for _, d := range af.Decls {
			if fd, ok := d.(*ast.FuncDecl); ok {
				name := fd.Name.Name
				if fd.Recv != nil {
					name = recvName(fd) + "." + name
				}
				if want[name] {
					fd.Doc = nil
					var eb bytes.Buffer
					format.Node(&eb, fset, fd)
					sb.WriteString(eb.String() + "\n\n")
					have[name] = true
					delete(want, name)
				}
				continue
			}
			gd, ok := d.(*ast.GenDecl)
			if ok && gd.Tok == token.TYPE {
				for _, sp := range gd.Specs {
					ts := sp.(*ast.TypeSpec)
					if want[ts.Name.Name] {
						var eb bytes.Buffer
						format.Node(&eb, fset, ts)
						sb.WriteString("type " + eb.String() + "\n\n")
						have[ts.Name.Name] = true
						delete(want, ts.Name.Name)
					}
				}
				continue
			}
			if !ok || (gd.Tok != token.CONST && gd.Tok != token.VAR) {
				continue
			}
			for _, sp := range gd.Specs {
				vs := sp.(*ast.ValueSpec)
				for i, n := range vs.Names {
					if want[n.Name] && i < len(vs.Values) {
						var eb bytes.Buffer
						format.Node(&eb, fset, vs.Values[i])
						fmt.Fprintf(&sb, "%s %s = %s\n", gd.Tok, n.Name, eb.String())
						have[n.Name] = true
						delete(want, n.Name)
					}
				}
			}
		}
		for n := range want {
			fail("package %s: %q not found in %s", p.Name, n, src)
		}
		if err := os.WriteFile(filepath.Join(dir, fmt.Sprintf("extracted_%d.go", xi)), []byte(sb.String()), 0o644); err != nil {
			fail("%v", err)
		}
	}
	for _, n := range p.Need {
		if !have[n] {
			fail("package %s: expected identifier %q is gone from the lifted sources", p.Name, n)
		}
	}
	for _, g := range p.Glue {
		data, err := os.ReadFile(filepath.Join(verif, g))
		if err != nil {
			fail("glue: %v", err)
		}
		base := strings.TrimSuffix(filepath.Base(g), ".in")
		if !strings.HasSuffix(base, ".go") {
			base += ".go"
		}
		// the glue joins the lifted package whatever its name
		lines := strings.SplitN(string(data), "\n", -1)
		for i, l := range lines {
			if strings.HasPrefix(l, "package ") {
				lines[i] = "package " + p.Name
				break
			}
		}
		data = []byte(strings.Join(lines, "\n"))
		if err := os.WriteFile(filepath.Join(dir, "glue_"+base), data, 0o644); err != nil {
			fail("%v", err)
		}
	}
	if p.ResetFunc != "" {
		calls := ""
		for _, fn := range resetFuncs {
			calls += "\t" + fn + "()\n"
		}
		src := fmt.Sprintf("package %s\n\n// %s puts every package-level variable of the lifted files back to its\n// initial value (generated by the lifter from the declarations found).\nfunc %s() {\n%s}\n", p.Name, p.ResetFunc, p.ResetFunc, calls)
		if err := os.WriteFile(filepath.Join(dir, "lifted_reset.go"), []byte(src), 0o644); err != nil {
			fail("%v", err)
		}
	}
	// liftinfo.go: hashes of the lifted sources, compiled into the harness
	var keys []string
	for k := range hashes {
		keys = append(keys, k)
	}
	sort.Strings(keys)
	var sb strings.Builder
	fmt.Fprintf(&sb, "package %s\n\n// LiftInfo: sha256 of each source file lifted into this package.\nvar LiftInfo = [][2]string{\n", p.Name)
	for _, k := range keys {
		fmt.Fprintf(&sb, "\t{%s, %s},\n", strconv.Quote(k), strconv.Quote(hashes[k]))
	}
	sb.WriteString("}\n")
	if err := os.WriteFile(filepath.Join(dir, "liftinfo.go"), []byte(sb.String()), 0o644); err != nil {
		fail("%v", err)
	}
}

func recvName(d *ast.FuncDecl) string {
	t := d.Recv.List[0].Type
	if s, ok := t.(*ast.StarExpr); ok {
		t = s.X
	}
	if ix, ok := t.(*ast.IndexExpr); ok {
		t = ix.X
	}
	if id, ok := t.(*ast.Ident); ok {
		return id.Name
	}
	return "?"
}

func rewrite(af *ast.File, p Pkg) {
	af.Name.Name = p.Name
	// 1. directive comments: //go:linkname, //llgo:link, //go:build (selected), cgo-ish
	for _, cg := range af.Comments {
		if p.KeepDirs {
			break
		}
		for _, c := range cg.List {
			t := c.Text
			if strings.HasPrefix(t, "//go:linkname") || strings.HasPrefix(t, "//llgo:") || strings.HasPrefix(t, "// llgo:") ||
				strings.HasPrefix(t, "//go:build") || strings.HasPrefix(t, "// +build") || strings.HasPrefix(t, "//go:nosplit") ||
				strings.HasPrefix(t, "//go:nowritebarrier") || strings.HasPrefix(t, "//go:nocheckptr") || strings.HasPrefix(t, "//go:noescape") ||
				strings.HasPrefix(t, "//go:norace") || strings.HasPrefix(t, "//go:systemstack") || strings.HasPrefix(t, "//go:yeswritebarrierrec") || strings.HasPrefix(t, "//go:nowritebarrierrec") {
				c.Text = "// [lifted: directive removed] " + strings.TrimPrefix(t, "//")
			}
		}
	}
	// 2. imports
	localName := map[string]string{} // local package name -> original path
	for _, im := range af.Imports {
		path, _ := strconv.Unquote(im.Path.Value)
		name := filepath.Base(path)
		if im.Name != nil {
			name = im.Name.Name
		}
		localName[name] = path
		if np, ok := p.Imports[path]; ok {
			if im.Name == nil && filepath.Base(np) != name {
				im.Name = ast.NewIdent(name)
			}
			im.Path.Value = strconv.Quote(np)
		}
	}
	// 3. selectors on package identifiers
	used := map[string]bool{}
	selScope := func(f func(ast.Node)) {
		if len(p.SelFuncs) == 0 {
			f(af)
			return
		}
		only := map[string]bool{}
		for _, n := range p.SelFuncs {
			only[n] = true
		}
		for _, d := range af.Decls {
			if fd, ok := d.(*ast.FuncDecl); ok {
				name := fd.Name.Name
				if fd.Recv != nil {
					name = recvName(fd) + "." + name
				}
				if only[name] {
					f(fd)
				}
			}
		}
	}
	selScope(func(root ast.Node) {
		ast.Inspect(root, func(n ast.Node) bool {
			se, ok := n.(*ast.SelectorExpr)
			if !ok {
				return true
			}
			id, ok := se.X.(*ast.Ident)
			if !ok || id.Obj != nil {
				return true
			}
			if _, isPkg := localName[id.Name]; !isPkg {
				return true
			}
			key := id.Name + "." + se.Sel.Name
			if to, ok := p.Selectors[key]; ok {
				parts := strings.SplitN(to, ".", 2)
				id.Name = parts[0]
				se.Sel.Name = parts[1]
				used[parts[0]] = true
			}
			return true
		})
	})
	// add imports for rewritten selectors
	for name := range used {
		path, ok := p.AddImport[name]
		if !ok {
			continue
		}
		if _, exists := localName[name]; exists && localName[name] == path {
			continue
		}
		spec := &ast.ImportSpec{Name: ast.NewIdent(name), Path: &ast.BasicLit{Kind: token.STRING, Value: strconv.Quote(path)}}
		af.Imports = append(af.Imports, spec)
		added := false
		for _, d := range af.Decls {
			if gd, ok := d.(*ast.GenDecl); ok && gd.Tok == token.IMPORT {
				gd.Specs = append(gd.Specs, spec)
				if !gd.Lparen.IsValid() {
					gd.Lparen = gd.Pos()
					gd.Rparen = gd.End()
				}
				added = true
				break
			}
		}
		if !added {
			af.Decls = append([]ast.Decl{&ast.GenDecl{Tok: token.IMPORT, Specs: []ast.Spec{spec}}}, af.Decls...)
		}
	}
	// 3b. loop guards
	if p.LoopGuard != "" {
		ast.Inspect(af, func(n ast.Node) bool {
			var body *ast.BlockStmt
			switch l := n.(type) {
			case *ast.ForStmt:
				body = l.Body
			case *ast.RangeStmt:
				body = l.Body
			}
			if body != nil {
				call := &ast.ExprStmt{X: &ast.CallExpr{Fun: ast.NewIdent(p.LoopGuard)}}
				body.List = append([]ast.Stmt{call}, body.List...)
			}
			return true
		})
	}
	// 4. drop declarations
	dropF := map[string]bool{}
	for _, n := range p.DropFuncs {
		dropF[n] = true
	}
	dropD := map[string]bool{}
	for _, n := range p.DropDecls {
		dropD[n] = true
	}
	var decls []ast.Decl
	for _, d := range af.Decls {
		switch d := d.(type) {
		case *ast.FuncDecl:
			name := d.Name.Name
			if d.Recv != nil {
				name = recvName(d) + "." + name
			}
			if dropF[name] || (p.Bodyless && d.Body == nil) {
				continue
			}
		case *ast.GenDecl:
			if d.Tok != token.IMPORT {
				var specs []ast.Spec
				for _, s := range d.Specs {
					keep := true
					switch s := s.(type) {
					case *ast.TypeSpec:
						keep = !dropD[s.Name.Name]
					case *ast.ValueSpec:
						if len(s.Names) == 1 && dropD[s.Names[0].Name] {
							keep = false
						}
					}
					if keep {
						specs = append(specs, s)
					}
				}
				if len(specs) == 0 {
					continue
				}
				d.Specs = specs
			}
		}
		decls = append(decls, d)
	}
	af.Decls = decls
	// 5. remove imports that became unused (only those we know are unused is hard
	// without type info: keep an import iff its local name is still referenced)
	ref := map[string]bool{}
	ast.Inspect(af, func(n ast.Node) bool {
		if se, ok := n.(*ast.SelectorExpr); ok {
			if id, ok := se.X.(*ast.Ident); ok && id.Obj == nil {
				ref[id.Name] = true
			}
		}
		return true
	})
	for _, d := range af.Decls {
		gd, ok := d.(*ast.GenDecl)
		if !ok || gd.Tok != token.IMPORT {
			continue
		}
		var specs []ast.Spec
		for _, s := range gd.Specs {
			im := s.(*ast.ImportSpec)
			path, _ := strconv.Unquote(im.Path.Value)
			name := filepath.Base(path)
			if im.Name != nil {
				name = im.Name.Name
			}
			if name == "_" || name == "." || ref[name] {
				specs = append(specs, s)
			}
		}
		gd.Specs = specs
	}
	var imps []*ast.ImportSpec
	for _, d := range af.Decls {
		if gd, ok := d.(*ast.GenDecl); ok && gd.Tok == token.IMPORT {
			for _, s := range gd.Specs {
				imps = append(imps, s.(*ast.ImportSpec))
			}
		}
	}
	af.Imports = imps
	// drop empty import decls
	decls = decls[:0]
	for _, d := range af.Decls {
		if gd, ok := d.(*ast.GenDecl); ok && gd.Tok == token.IMPORT && len(gd.Specs) == 0 {
			continue
		}
		decls = append(decls, d)
	}
	af.Decls = decls
}
