package sim

import (
	"syscall"
	"unsafe"
)

// FixedRegion maps (once per process) an anonymous memory region at a fixed
// virtual address.  Objects of the code under test whose *addresses* it may use
// (tables keyed by address, tie-breaks by address) are placed there, so that
// such behaviour is the same in every process and a replay in a fresh process
// follows the recorded trace.  The region is not scanned by Go's collector:
// only pointer-free objects, or pointers into the region itself, may live in it.
func FixedRegion(size uintptr) unsafe.Pointer {
	if fixedBase != nil {
		return fixedBase
	}
	const addr = 0x7e5500000000
	p, _, errno := syscall.Syscall6(syscall.SYS_MMAP, addr, size, syscall.PROT_READ|syscall.PROT_WRITE,
		syscall.MAP_PRIVATE|syscall.MAP_ANONYMOUS|0x100000 /* MAP_FIXED_NOREPLACE */, ^uintptr(0), 0)
	if errno != 0 || p != addr {
		panic("sim: cannot map the fixed region: " + errno.Error())
	}
	fixedBase = unsafe.Pointer(p) //nolint
	return fixedBase
}

var fixedBase unsafe.Pointer
