package sim

// Choices is the single source of every nondeterministic decision of a run.
// In generating mode it draws from one PRNG (seeded from the run seed) and
// records each decision; in replay mode it returns the recorded decisions, so a
// minimised decision list that no seed generates replays too.
type Choices struct {
	rng      *Rng
	replay   bool
	Rec      []Choice // decisions actually taken by this run (both modes)
	In       []Choice // replay mode: decisions to force
	pos      int
	Diverged int // replay: decisions that did not fit the state (fallback used)
}

type Choice struct {
	K byte
	V int
}

func NewChoices(seed uint64) *Choices { return &Choices{rng: NewRng(seed)} }

func ReplayChoices(rec []Choice) *Choices { return &Choices{replay: true, In: rec} }

func (c *Choices) Replaying() bool { return c.replay }

// Rng exposes the generator for workload generation before the run starts.
func (c *Choices) Rng() *Rng { return c.rng }

func (c *Choices) Record(k byte, v int) { c.Rec = append(c.Rec, Choice{k, v}) }

// Next returns the next recorded decision if it has kind k (replay mode).
// A decision of value -1 means "take the default".
func (c *Choices) Next(k byte) (int, bool) {
	if c.pos >= len(c.In) {
		return 0, false
	}
	ch := c.In[c.pos]
	if ch.K != k {
		c.Diverged++
		return 0, false
	}
	c.pos++
	if ch.V < 0 {
		return 0, false
	}
	return ch.V, true
}

// Choose draws a recorded decision in [0,n).  Default on replay underrun: 0.
func (c *Choices) Choose(k byte, n int) int {
	if c.replay {
		v, ok := c.Next(k)
		if ok && v >= n {
			c.Diverged++
			ok = false
		}
		if !ok {
			v = 0
		}
		c.Rec = append(c.Rec, Choice{k, v})
		return v
	}
	v := c.rng.Intn(n)
	c.Rec = append(c.Rec, Choice{k, v})
	return v
}

// ChooseP returns 0 with probability 1-p, otherwise uniform in [1,n).
func (c *Choices) ChooseP(k byte, n int, p float64) int {
	if c.replay {
		v, ok := c.Next(k)
		if ok && v >= n {
			c.Diverged++
			ok = false
		}
		if !ok {
			v = 0
		}
		c.Rec = append(c.Rec, Choice{k, v})
		return v
	}
	v := 0
	if n > 1 && c.rng.Float64() < p {
		v = 1 + c.rng.Intn(n-1)
	}
	c.Rec = append(c.Rec, Choice{k, v})
	return v
}

// Intn and Bernoulli are raw draws for strategies whose *result* is recorded
// by the caller; never called in replay mode.
func (c *Choices) Intn(n int) int           { return c.rng.Intn(n) }
func (c *Choices) Bernoulli(p float64) bool { return c.rng.Float64() < p }

// Rng: xoshiro256** seeded through splitmix64.
type Rng struct{ s [4]uint64 }

func SplitMix(x uint64) uint64 {
	x += 0x9e3779b97f4a7c15
	z := x
	z = (z ^ (z >> 30)) * 0xbf58476d1ce4e5b9
	z = (z ^ (z >> 27)) * 0x94d049bb133111eb
	return z ^ (z >> 31)
}

// RunSeed derives the seed of run i of a batch.
func RunSeed(batch uint64, i uint64) uint64 {
	return SplitMix(SplitMix(batch) ^ SplitMix(i*0x9e3779b97f4a7c15+1))
}

func NewRng(seed uint64) *Rng {
	r := &Rng{}
	x := seed
	for i := range r.s {
		x = SplitMix(x)
		r.s[i] = x
	}
	return r
}

func rotl(x uint64, k uint) uint64 { return (x << k) | (x >> (64 - k)) }

func (r *Rng) Uint64() uint64 {
	s := &r.s
	res := rotl(s[1]*5, 7) * 9
	t := s[1] << 17
	s[2] ^= s[0]
	s[3] ^= s[1]
	s[1] ^= s[2]
	s[0] ^= s[3]
	s[2] ^= t
	s[3] = rotl(s[3], 45)
	return res
}

func (r *Rng) Intn(n int) int {
	if n <= 1 {
		return 0
	}
	return int(r.Uint64() % uint64(n))
}

func (r *Rng) Float64() float64 { return float64(r.Uint64()>>11) / (1 << 53) }
func (r *Rng) Bool() bool       { return r.Uint64()&1 == 1 }

// Range returns a value in [lo,hi].
func (r *Rng) Range(lo, hi int) int { return lo + r.Intn(hi-lo+1) }
