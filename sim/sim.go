// Package sim is the deterministic simulation kernel: cooperative tasks on
// goroutines of which exactly one is ever unparked, a seeded/recorded choice
// source that decides every scheduling and fault decision, simulated pthread
// objects (in sim/psync), a discrete clock, reach counters and a trace hash.
//
// Exactly one Sim is active per OS process at a time (global S): the code under
// test reaches it through package-level stand-ins, as it reaches pthread in a
// real build.
package sim

import (
	"fmt"
	"runtime/debug"
	"sort"
	"unsafe"
)

// Point kinds (what a task was about to do when it yielded).
const (
	KStart     = 's'
	KLock      = 'l'
	KWait      = 'w'
	KSignal    = 'g'
	KBroadcast = 'b'
	KAtomic    = 'a'
	KOnce      = 'o'
	KSys       = 'y' // simulated syscall
	KYield     = 'Y' // harness-level yield between operations
	KExit      = 'x'
	KSpurious  = 'S' // recorded by the scheduler: spurious wake-up of a task
)

type State uint8

const (
	Runnable State = iota
	BlockedMutex
	BlockedCond
	BlockedOther // Once, flock, ...
	Done
	Crashed // killed by fault injection; never resumes, defers do not run
)

type Task struct {
	ID    int
	Name  string
	Fn    func()
	state State

	wake chan struct{}

	// what the task is blocked on (reporting and spurious wake-up)
	BlockObj  int
	BlockKind byte
	condq     *[]*Task // queue the task sits in while BlockedCond
	Woken     bool     // set by the waker of a BlockedOther task
	EndState  State

	Panic    any // value the task's function panicked with (nil if none)
	Panicked bool
	Points   int // sim points reached by this task
	CrashAt  int // crash the task when Points reaches this (0 = never)
	prio     int
}

func (t *Task) State() State { return t.state }

type killed struct{}

// Violation raised by kernel-level checks (pthread misuse by the code under test).
type Misuse struct{ Msg string }

// Config of one run (drawn from the seed by the property's generator; stored in
// the replay file).
type Config struct {
	Strategy     string  // "uniform" | "pct" | "runtoblock" | "starve" | "rr"
	PreemptP     float64 // runtoblock: probability of a preemption at a point
	PCTDepth     int     // pct: number of priority change points
	PCTLen       int     // pct: assumed run length for placing change points
	StarveTask   int     // starve: task never chosen unless alone
	SpuriousRate float64 // probability per scheduling step of a spurious cond wake-up
	SpuriousMax  int     // budget per run
	MaxSteps     int     // phase-1 cap
	LiveSteps    int     // phase-2 (fair, fault-free) cap
	ClockMaxStep int64   // max simulated ns added per Now() call (0: +1)
}

type EndReason int

const (
	EndQuiescent EndReason = iota // no runnable task (all done or blocked)
	EndStepCap                    // liveness bound exhausted
	EndAbort                      // oracle asked to stop
)

type Sim struct {
	Cfg   Config
	Tasks []*Task
	Cur   *Task
	Ch    *Choices

	Step     int // scheduling decisions taken
	Seq      uint64
	clock    int64
	phase2   bool
	ended    bool
	dead     bool
	End      EndReason
	mainDone chan struct{}
	nextObj  int
	addrObj  map[unsafe.Pointer]int

	// OnStep is called after every step, in the context of the yielding task,
	// before the next task is chosen.  Returning a non-empty string aborts the
	// run with that violation.
	OnStep   func() string
	OnCrash  func(t *Task) // release simulated kernel resources of a crashed task
	OnPhase2 func()        // faults are switched off here
	Abort    string
	Misuse   []string

	Spurious   int
	Switches   int // steps where the chosen task differs from the previous one
	Preempts   int // switches away from a task that was still runnable
	TraceHash  uint64
	Trace      []TraceEv // kept only if KeepTrace
	LogLines   []string
	EndBlocked []*Task // tasks blocked when the run ended
	KeepTrace  bool
	pctChange  map[int]bool
	rr         int
	Probes     map[string]int
	SimTimeEnd int64
}

type TraceEv struct {
	Step int
	Task int
	Kind byte
	Obj  int
}

func (e TraceEv) String() string { return fmt.Sprintf("%d:t%d:%c:%d", e.Step, e.Task, e.Kind, e.Obj) }

// S is the active simulation of this process.
var S *Sim

func New(cfg Config, ch *Choices) *Sim {
	s := &Sim{Cfg: cfg, Ch: ch, mainDone: make(chan struct{}, 1), Probes: map[string]int{}}
	s.TraceHash = 1469598103934665603
	if s.Cfg.MaxSteps == 0 {
		s.Cfg.MaxSteps = 4000
	}
	if s.Cfg.LiveSteps == 0 {
		s.Cfg.LiveSteps = 4000
	}
	return s
}

func (s *Sim) NewObj() int { s.nextObj++; return s.nextObj }

// ObjOf maps an address to a small object id in first-use order, so that trace
// hashes and logs do not depend on where the allocator put things.
func (s *Sim) ObjOf(p unsafe.Pointer) int {
	if s.addrObj == nil {
		s.addrObj = map[unsafe.Pointer]int{}
	}
	id, ok := s.addrObj[p]
	if !ok {
		id = s.NewObj()
		s.addrObj[p] = id
	}
	return id
}

func (s *Sim) Probe(name string) { s.Probes[name]++ }

func (s *Sim) Spawn(name string, fn func()) *Task {
	t := &Task{ID: len(s.Tasks), Name: name, Fn: fn, wake: make(chan struct{}, 1)}
	s.Tasks = append(s.Tasks, t)
	return t
}

// Stamp returns the next global event sequence number (used for invoke/return
// stamps of operations; strictly increasing, never ties).
func (s *Sim) Stamp() uint64 { s.Seq++; return s.Seq }

// Now reads the simulated clock; each read advances it by a recorded amount.
func (s *Sim) Now() int64 {
	if s.dead {
		return s.clock
	}
	if s.Cfg.ClockMaxStep > 0 && !s.phase2 {
		// few large jumps, many small ones
		c := s.Ch.Choose('c', 4)
		switch c {
		case 0:
			s.clock += 1
		case 1:
			s.clock += s.Cfg.ClockMaxStep / 1000
		case 2:
			s.clock += s.Cfg.ClockMaxStep / 2
		case 3:
			s.clock += s.Cfg.ClockMaxStep
		}
	} else {
		s.clock++
	}
	return s.clock
}

func (s *Sim) Clock() int64 { return s.clock }

// Run executes all spawned tasks to quiescence / caps and tears the goroutines down.
func (s *Sim) Run() {
	S = s
	if s.Cfg.Strategy == "pct" {
		s.pctChange = map[int]bool{}
		n := s.Cfg.PCTLen
		if n <= 0 {
			n = 200
		}
		for i := 0; i < s.Cfg.PCTDepth; i++ {
			s.pctChange[s.Ch.Choose('P', n)] = true
		}
		for _, t := range s.Tasks {
			t.prio = 1000 + s.Ch.Choose('P', 1000000)
		}
	}
	for _, t := range s.Tasks {
		t := t
		go s.taskMain(t)
	}
	first := s.pick(nil)
	if first == nil {
		s.ended = true
	} else {
		s.Cur = first
		first.wake <- struct{}{}
		<-s.mainDone
	}
	// tear down: unwind every parked task
	s.EndBlocked = s.Blocked()
	for _, t := range s.EndBlocked {
		t.EndState = t.state
	}
	s.dead = true
	s.SimTimeEnd = s.clock
	for _, t := range s.Tasks {
		if t.state != Done {
			t.wake <- struct{}{}
			<-s.mainDone
		}
	}
	S = nil
}

func (s *Sim) taskMain(t *Task) {
	// a wild pointer in the code under test becomes a recoverable panic of
	// this task instead of killing the process
	debug.SetPanicOnFault(true)
	<-t.wake
	if s.dead {
		t.state = Done
		s.mainDone <- struct{}{}
		return
	}
	defer func() {
		r := recover()
		if s.dead {
			// being torn down
			t.state = Done
			s.mainDone <- struct{}{}
			return
		}
		if r != nil {
			if m, ok := r.(Misuse); ok {
				s.Misuse = append(s.Misuse, m.Msg)
			} else {
				t.Panic = r
				t.Panicked = true
			}
		}
		t.state = Done
		s.note(t, KExit, 0)
		s.reschedule()
	}()
	s.Point(KStart, 0)
	t.Fn()
}

func (s *Sim) note(t *Task, kind byte, obj int) {
	h := s.TraceHash
	h = (h ^ uint64(t.ID+1)) * 1099511628211
	h = (h ^ uint64(kind)) * 1099511628211
	h = (h ^ uint64(obj)) * 1099511628211
	s.TraceHash = h
	if s.KeepTrace {
		s.Trace = append(s.Trace, TraceEv{s.Step, t.ID, kind, obj})
		s.LogLines = append(s.LogLines, fmt.Sprintf("step %d: t%d %s obj%d", s.Step, t.ID, KindName(kind), obj))
	}
}

// Logf appends a line to the event log (kept runs only).  Never draws from the
// PRNG and never reads a clock.
func (s *Sim) Logf(format string, a ...any) {
	if s.KeepTrace {
		s.LogLines = append(s.LogLines, fmt.Sprintf(format, a...))
	}
}

func KindName(k byte) string {
	switch k {
	case KStart:
		return "start"
	case KLock:
		return "lock"
	case KWait:
		return "cond-wait"
	case KSignal:
		return "cond-signal"
	case KBroadcast:
		return "cond-broadcast"
	case KAtomic:
		return "atomic"
	case KOnce:
		return "once"
	case KSys:
		return "syscall"
	case KYield:
		return "yield"
	case KExit:
		return "exit"
	case KSpurious:
		return "SPURIOUS-WAKE"
	}
	return string(k)
}

// Point is a sim point: the current task is about to perform an operation of
// the given kind on the given object and yields to the scheduler first.
func (s *Sim) Point(kind byte, obj int) {
	if s.dead {
		panic(killed{})
	}
	t := s.Cur
	t.Points++
	s.note(t, kind, obj)
	if t.CrashAt != 0 && t.Points == t.CrashAt {
		s.CrashCurrent()
	}
	s.reschedule()
}

// CrashCurrent kills the current task as a process crash would: it never runs
// again and its deferred functions do not run (they unwind only at teardown,
// when every sim operation is a no-op).
func (s *Sim) CrashCurrent() {
	t := s.Cur
	t.state = Crashed
	if s.OnCrash != nil {
		s.OnCrash(t)
	}
	s.reschedule()
	panic(killed{}) // only reached at teardown
}

// Block parks the current task in the given state until another task (or the
// scheduler) makes it Runnable again and it is chosen.
func (s *Sim) Block(st State, kind byte, obj int) {
	if s.dead {
		panic(killed{})
	}
	t := s.Cur
	t.state = st
	t.BlockKind = kind
	t.BlockObj = obj
	s.reschedule()
}

// MakeRunnable marks a blocked task runnable (called by wakers).
func (s *Sim) MakeRunnable(t *Task) {
	if t.state == BlockedMutex || t.state == BlockedCond || t.state == BlockedOther {
		t.state = Runnable
	}
}

// SetCondQueue records the queue a cond-blocked task sits in (for spurious wake-ups).
func (t *Task) SetCondQueue(q *[]*Task) { t.condq = q }

func (s *Sim) reschedule() {
	me := s.Cur
	if !s.ended {
		if s.OnStep != nil && s.Abort == "" {
			if v := s.OnStep(); v != "" {
				s.Abort = v
			}
		}
		if len(s.Misuse) > 0 && s.Abort == "" {
			s.Abort = "pthread-misuse: " + s.Misuse[0]
		}
	}
	var next *Task
	if s.Abort != "" {
		s.End = EndAbort
	} else {
		next = s.pick(me)
	}
	if next == nil {
		// run is over
		s.ended = true
		s.mainDone <- struct{}{}
		if me.state == Done {
			return
		}
		<-me.wake
		panic(killed{})
	}
	if next == me {
		return
	}
	s.Switches++
	if me.state == Runnable {
		s.Preempts++
	}
	s.Cur = next
	next.wake <- struct{}{}
	if me.state == Done {
		return
	}
	<-me.wake
	if s.dead {
		panic(killed{})
	}
}

// pick chooses the next task to run, or nil when the run is over.
func (s *Sim) pick(me *Task) *Task {
	s.Step++
	if !s.phase2 && s.Step > s.Cfg.MaxSteps {
		// faults off, fair scheduling: bounded liveness phase
		s.phase2 = true
		s.Probe("phase2-entered")
		if s.OnPhase2 != nil {
			s.OnPhase2()
		}
	}
	if s.phase2 && s.Step > s.Cfg.MaxSteps+s.Cfg.LiveSteps {
		s.End = EndStepCap
		return nil
	}
	// spurious wake-up (fault), phase 1 only
	if !s.phase2 && s.Cfg.SpuriousRate > 0 && s.Spurious < s.Cfg.SpuriousMax {
		var cw []*Task
		for _, t := range s.Tasks {
			if t.state == BlockedCond {
				cw = append(cw, t)
			}
		}
		if len(cw) > 0 {
			// encoded as one choice: 0 = none, i+1 = wake cw[i]
			c := s.Ch.ChooseP('p', len(cw)+1, s.Cfg.SpuriousRate)
			if c > 0 {
				t := cw[c-1]
				s.spuriousWake(t)
			}
		}
	}
	var run []*Task
	for _, t := range s.Tasks {
		if t.state == Runnable {
			run = append(run, t)
		}
	}
	if len(run) == 0 {
		s.End = EndQuiescent
		return nil
	}
	if len(run) == 1 {
		return run[0]
	}
	// replay: forced task id
	if s.Ch.Replaying() {
		id, ok := s.Ch.Next('t')
		var nx *Task
		if ok {
			for _, t := range run {
				if t.ID == id {
					nx = t
				}
			}
			if nx == nil {
				s.Ch.Diverged++
			}
		}
		// default: stay on the current task if runnable, else lowest id
		if nx == nil {
			if me != nil && me.state == Runnable {
				nx = me
			} else {
				nx = run[0]
			}
		}
		s.Ch.Record('t', nx.ID)
		return nx
	}
	var next *Task
	strat := s.Cfg.Strategy
	if s.phase2 {
		strat = "rr"
	}
	switch strat {
	case "rr":
		// fair round-robin over task ids
		sort.Slice(run, func(i, j int) bool { return run[i].ID < run[j].ID })
		next = run[0]
		for _, t := range run {
			if t.ID > s.rr {
				next = t
				break
			}
		}
		s.rr = next.ID
	case "pct":
		if s.pctChange[s.Step] && me != nil {
			me.prio = -s.Step
		}
		next = run[0]
		for _, t := range run {
			if t.prio > next.prio {
				next = t
			}
		}
	case "runtoblock":
		if me != nil && me.state == Runnable && !s.Ch.Bernoulli(s.Cfg.PreemptP) {
			next = me
		} else {
			next = run[s.Ch.Intn(len(run))]
		}
	case "starve":
		var r2 []*Task
		for _, t := range run {
			if t.ID != s.Cfg.StarveTask {
				r2 = append(r2, t)
			}
		}
		if len(r2) == 0 {
			r2 = run
		}
		next = r2[s.Ch.Intn(len(r2))]
	default:
		next = run[s.Ch.Intn(len(run))]
	}
	s.Ch.Record('t', next.ID)
	return next
}

func (s *Sim) spuriousWake(t *Task) {
	if t.condq != nil {
		q := *t.condq
		for i, w := range q {
			if w == t {
				*t.condq = append(q[:i:i], q[i+1:]...)
				break
			}
		}
	}
	t.state = Runnable
	s.Spurious++
	s.note(t, KSpurious, t.BlockObj)
}

// Phase2 reports whether the run is in its fair, fault-free liveness phase.
func (s *Sim) Phase2() bool { return s.phase2 }
func (s *Sim) Dead() bool   { return s.dead }

// Blocked returns the tasks that are neither done nor crashed nor runnable.
func (s *Sim) Blocked() []*Task {
	var r []*Task
	for _, t := range s.Tasks {
		if t.state == BlockedMutex || t.state == BlockedCond || t.state == BlockedOther {
			r = append(r, t)
		}
	}
	return r
}
