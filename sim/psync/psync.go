// Package psync is the simulated stand-in for llgo's
// runtime/internal/clite/pthread/sync (pthread mutex / cond / once).  Same
// method set; every blocking or signalling call is a sim point and all
// scheduling, wake-up target and spurious wake-up decisions belong to the
// simulator.  POSIX misuse (undefined behaviour in a real build) is reported.
package psync

import (
	"fmt"

	"verif/sim"
)

type MutexAttr struct{}
type CondAttr struct{}

type Mutex struct {
	id        int
	owner     *sim.Task
	locked    bool
	destroyed bool
	waiters   []*sim.Task
}

func (m *Mutex) obj() int {
	if m.id == 0 {
		m.id = sim.S.NewObj()
	}
	return m.id
}

func misuse(format string, a ...any) {
	panic(sim.Misuse{Msg: fmt.Sprintf(format, a...)})
}

func (m *Mutex) Init(attr *MutexAttr) int32 {
	if sim.S == nil || sim.S.Dead() {
		return 0
	}
	*m = Mutex{}
	m.obj()
	return 0
}

func (m *Mutex) Destroy() {
	if sim.S == nil || sim.S.Dead() {
		return
	}
	if m.locked {
		misuse("destroy of a locked mutex")
	}
	if len(m.waiters) > 0 {
		misuse("destroy of a mutex with waiters")
	}
	m.destroyed = true
}

func (m *Mutex) Lock() {
	s := sim.S
	s.Point(sim.KLock, m.obj())
	if m.destroyed {
		misuse("lock of a destroyed mutex")
	}
	m.acquire()
}

// acquire blocks until the mutex is free and takes it (no sim point of its own).
func (m *Mutex) acquire() {
	s := sim.S
	me := s.Cur
	for m.locked {
		if m.owner == me {
			// normal (non-recursive) mutex: self-deadlock, as POSIX says
			s.Probe("self-deadlock")
		}
		m.waiters = append(m.waiters, me)
		s.Block(sim.BlockedMutex, sim.KLock, m.id)
	}
	m.locked = true
	m.owner = me
}

func (m *Mutex) TryLock() int32 {
	s := sim.S
	s.Point(sim.KLock, m.obj())
	if m.locked {
		return 16 // EBUSY
	}
	m.locked = true
	m.owner = s.Cur
	return 0
}

func (m *Mutex) Unlock() {
	s := sim.S
	if s == nil || s.Dead() {
		return
	}
	if !m.locked || m.owner != s.Cur {
		misuse("unlock of a mutex not held by the caller")
	}
	m.release()
}

func (m *Mutex) release() {
	s := sim.S
	m.locked = false
	m.owner = nil
	for _, w := range m.waiters {
		s.MakeRunnable(w)
	}
	m.waiters = m.waiters[:0]
}

type Cond struct {
	id        int
	destroyed bool
	waiters   []*sim.Task
	mu        *Mutex // mutex the current waiters used
}

func (c *Cond) obj() int {
	if c.id == 0 {
		c.id = sim.S.NewObj()
	}
	return c.id
}

func (c *Cond) Init(attr *CondAttr) int32 {
	if sim.S == nil || sim.S.Dead() {
		return 0
	}
	*c = Cond{}
	c.obj()
	return 0
}

func (c *Cond) Destroy() {
	if sim.S == nil || sim.S.Dead() {
		return
	}
	if len(c.waiters) > 0 {
		misuse("destroy of a condition variable with waiters")
	}
	c.destroyed = true
}

func (c *Cond) Wait(m *Mutex) int32 {
	s := sim.S
	s.Point(sim.KWait, c.obj())
	if c.destroyed {
		misuse("wait on a destroyed condition variable")
	}
	me := s.Cur
	if !m.locked || m.owner != me {
		misuse("cond wait with a mutex not held by the caller")
	}
	if len(c.waiters) > 0 && c.mu != m {
		misuse("cond wait with two different mutexes")
	}
	c.mu = m
	c.waiters = append(c.waiters, me)
	me.SetCondQueue(&c.waiters)
	m.release()
	s.Block(sim.BlockedCond, sim.KWait, c.id)
	// woken (signal, broadcast or spurious): re-contend for the mutex
	me.SetCondQueue(nil)
	m.acquire()
	return 0
}

func (c *Cond) Signal() int32 {
	s := sim.S
	s.Point(sim.KSignal, c.obj())
	if c.destroyed {
		misuse("signal on a destroyed condition variable")
	}
	if n := len(c.waiters); n > 0 {
		// POSIX leaves the choice of waiter open: the simulator decides
		i := 0
		if n > 1 {
			i = s.Ch.Choose('w', n)
		}
		t := c.waiters[i]
		c.waiters = append(c.waiters[:i:i], c.waiters[i+1:]...)
		s.MakeRunnable(t)
	}
	return 0
}

func (c *Cond) Broadcast() int32 {
	s := sim.S
	s.Point(sim.KBroadcast, c.obj())
	if c.destroyed {
		misuse("broadcast on a destroyed condition variable")
	}
	for _, t := range c.waiters {
		s.MakeRunnable(t)
	}
	c.waiters = nil
	return 0
}

type Once struct {
	id      int
	done    bool
	running bool
	waiters []*sim.Task
}

func (o *Once) Do(f func()) int32 {
	s := sim.S
	if o.id == 0 {
		o.id = s.NewObj()
	}
	s.Point(sim.KOnce, o.id)
	for o.running {
		o.waiters = append(o.waiters, s.Cur)
		s.Block(sim.BlockedOther, sim.KOnce, o.id)
	}
	if o.done {
		return 0
	}
	o.running = true
	f()
	o.running = false
	o.done = true
	for _, w := range o.waiters {
		s.MakeRunnable(w)
	}
	o.waiters = nil
	return 0
}
