// Package simos is the simulated OS seam for code lifted from /repo that
// calls os / syscall.Flock / net/http / os/exec directly.  File operations
// act on the real file system under a private sandbox (so archive/zip and an
// external tar see real files), but every call is a sim point owned by the
// scheduler, is checked against a confinement policy *before* it takes effect,
// may fail by injected fault, and advisory locks, HTTP and process crashes are
// simulated.  One "task" stands for one OS process of the real system.
package simos

import (
	"bytes"
	"errors"
	"fmt"
	"io"
	"io/fs"
	"net/http"
	"os"
	"os/exec"
	"path/filepath"
	"strings"
	"syscall"

	"verif/sim"
)

type Fault struct {
	K   string `json:"k"`             // fserr fserr-remove shortwrite crash net-connect net-status net-bodyerr net-truncate net-flip execfail
	At  int    `json:"at"`            // index of the task's syscall (fs/net) or sim point (crash)
	Arg int    `json:"arg,omitempty"` // errno selector / byte offset
}

type World struct {
	nrem    map[int]int // removals so far, per task
	S       *sim.Sim
	Sandbox string // nothing may ever be touched outside this directory
	// Allowed reports whether task may create/modify/delete path (cleaned, absolute).
	Allowed func(task int, path string) bool
	// Serve returns the body for a URL.
	Serve func(url string) ([]byte, bool)
	// OnMutate is called before a mutation of path takes effect.
	OnMutate func(task int, op, path string)

	LinksPossible bool // an external program ran: symbolic links may exist in the sandbox
	Dirty         bool // a mutation happened since the harness last looked

	Viol    string // first violation detected at the seam ("class|detail")
	Faults  map[int][]Fault
	Fired   map[string]int
	nsys    map[int]int
	files   map[uintptr]*File
	locks   map[lockKey]*lockState
	Syscall int
}

type lockKey struct{ dev, ino uint64 }
type lockState struct {
	holder  *File
	waiters []*sim.Task
}

var W *World

func NewWorld(s *sim.Sim, sandbox string) *World {
	w := &World{S: s, Sandbox: filepath.Clean(sandbox), Faults: map[int][]Fault{}, Fired: map[string]int{}, nsys: map[int]int{},
		files: map[uintptr]*File{}, locks: map[lockKey]*lockState{}}
	W = w
	s.OnCrash = w.crash
	return w
}

// Rel renders a path relative to the sandbox for logs (never the raw temp name).
func (w *World) Rel(p string) string {
	if r, err := filepath.Rel(w.Sandbox, p); err == nil && !strings.HasPrefix(r, "..") {
		return "$SB/" + r
	}
	return p
}

func (w *World) violate(class, format string, a ...any) {
	if w.Viol == "" {
		w.Viol = class + "|" + fmt.Sprintf(format, a...)
	}
}

func (w *World) inSandbox(p string) bool {
	p = filepath.Clean(p)
	return p == w.Sandbox || strings.HasPrefix(p, w.Sandbox+string(os.PathSeparator))
}

// enter is the common prologue of every simulated syscall: sim point, then
// fault decision.  It returns a non-nil error if the call is to fail.
func (w *World) enter(op, path string, canFail bool) error {
	s := w.S
	s.Point(sim.KSys, 0)
	t := s.Cur.ID
	w.Syscall++
	n := w.nsys[t]
	w.nsys[t] = n + 1
	s.Logf("  t%d sys#%d %s %s", t, n, op, w.Rel(path))
	if s.Phase2() {
		return nil
	}
	if op == "removeall" || op == "remove" {
		// fserr-remove: the Arg-th removal of the task fails (clean-up code is where
		// results tend to be ignored)
		if w.nrem == nil {
			w.nrem = map[int]int{}
		}
		k := w.nrem[t]
		w.nrem[t] = k + 1
		for _, f := range w.Faults[t] {
			if f.K == "fserr-remove" && f.Arg == k && canFail {
				w.Fired["fs-error-on-removal"]++
				s.Logf("  FAULT t%d %s %s fails with %v", t, op, w.Rel(path), syscall.EIO)
				return &fs.PathError{Op: op, Path: path, Err: syscall.EIO}
			}
		}
	}
	for _, f := range w.Faults[t] {
		if f.At == n && canFail {
			switch f.K {
			case "fserr":
				e := []syscall.Errno{syscall.ENOSPC, syscall.EIO, syscall.EACCES}[f.Arg%3]
				w.Fired["fs-error"]++
				s.Logf("  FAULT t%d %s %s fails with %v", t, op, w.Rel(path), e)
				return &fs.PathError{Op: op, Path: path, Err: e}
			}
		}
	}
	return nil
}

func (w *World) fault(kind string) *Fault {
	t := w.S.Cur.ID
	n := w.nsys[t] - 1
	if w.S.Phase2() {
		return nil
	}
	for i := range w.Faults[t] {
		f := &w.Faults[t][i]
		if (f.At == n || f.At < 0) && f.K == kind {
			return f
		}
	}
	return nil
}

// mutate checks the confinement policy for a path about to be created,
// written, renamed or removed.  Returns false if the operation must not be
// performed for real (it would leave the sandbox).
func (w *World) mutate(op, path string) bool {
	p := filepath.Clean(path)
	if !filepath.IsAbs(p) {
		if wd, err := os.Getwd(); err == nil {
			p = filepath.Join(wd, p)
		}
	}
	t := w.S.Cur.ID
	if !w.inSandbox(p) {
		w.violate("escape", "task %d: %s %s lies outside the destination (and outside the test sandbox: refused)", t, op, p)
		return false
	}
	// a symlink in a parent component could redirect the operation (links can
	// only come into being through an external program)
	if !w.LinksPossible {
	} else if real, err := filepath.EvalSymlinks(filepath.Dir(p)); err == nil {
		rp := filepath.Join(real, filepath.Base(p))
		if !w.inSandbox(rp) {
			w.violate("escape", "task %d: %s %s resolves through a link to %s outside the destination (refused)", t, op, w.Rel(p), rp)
			return false
		}
		p = rp
		// an existing symbolic link as the final component redirects opens
		if fi, err := os.Lstat(p); err == nil && fi.Mode()&os.ModeSymlink != 0 && strings.HasPrefix(op, "open") {
			if tgt, err := filepath.EvalSymlinks(p); err == nil {
				if !w.inSandbox(tgt) {
					w.violate("escape", "task %d: %s %s follows a symbolic link to %s outside the destination (refused)", t, op, w.Rel(p), tgt)
					return false
				}
				p = tgt
			}
		}
	}
	if w.Allowed != nil && !w.Allowed(t, p) {
		w.violate("escape", "task %d: %s %s lies outside the requested destination's own tree", t, op, w.Rel(p))
	}
	if w.OnMutate != nil {
		w.OnMutate(t, op, p)
	}
	w.Dirty = true
	return true
}

var errRefused = errors.New("simos: operation outside the sandbox refused")

var Stderr io.Writer = io.Discard

func Stat(name string) (os.FileInfo, error) {
	if err := W.enter("stat", name, false); err != nil {
		return nil, err
	}
	return os.Stat(name)
}

func MkdirAll(path string, perm os.FileMode) error {
	if err := W.enter("mkdirall", path, true); err != nil {
		return err
	}
	if !W.mutate("mkdir", path) {
		return errRefused
	}
	return os.MkdirAll(path, perm)
}

func Remove(name string) error {
	if err := W.enter("remove", name, true); err != nil {
		return err
	}
	if !W.mutate("remove", name) {
		return errRefused
	}
	return os.Remove(name)
}

func RemoveAll(path string) error {
	if err := W.enter("removeall", path, true); err != nil {
		return err
	}
	if !W.mutate("removeall", path) {
		return errRefused
	}
	return os.RemoveAll(path)
}

// Symlink and Link: the code under test does not create links today; if it
// starts to, they are created only when the link itself lies in the allowed tree
// and its target resolves inside the sandbox (so that nothing real can be
// reached through it), and every later operation resolves links before it is
// judged.
func Symlink(oldname, newname string) error {
	if err := W.enter("symlink", newname, true); err != nil {
		return err
	}
	if !W.mutate("symlink", newname) {
		return errRefused
	}
	tgt := oldname
	if !filepath.IsAbs(tgt) {
		tgt = filepath.Join(filepath.Dir(newname), tgt)
	}
	W.LinksPossible = true
	if !W.inSandbox(tgt) {
		W.violate("escape", "task %d: symbolic link %s -> %s points outside the destination (and the test sandbox: not created)", W.S.Cur.ID, W.Rel(newname), oldname)
		return errRefused
	}
	return os.Symlink(oldname, newname)
}

func Link(oldname, newname string) error {
	if err := W.enter("link", newname, true); err != nil {
		return err
	}
	if !W.mutate("link-from", oldname) || !W.mutate("link", newname) {
		return errRefused
	}
	W.LinksPossible = true
	return os.Link(oldname, newname)
}

func Rename(oldpath, newpath string) error {
	if err := W.enter("rename", oldpath+" -> "+W.Rel(newpath), true); err != nil {
		return err
	}
	if !W.mutate("rename-from", oldpath) || !W.mutate("rename-to", newpath) {
		return errRefused
	}
	return os.Rename(oldpath, newpath)
}

type File struct {
	f      *os.File
	w      *World
	owner  *sim.Task
	path   string
	fd     uintptr
	closed bool
	locked *lockKey
	wr     bool
}

func OpenFile(name string, flag int, perm os.FileMode) (*File, error) {
	if err := W.enter("open", name, true); err != nil {
		return nil, err
	}
	wr := flag&(os.O_WRONLY|os.O_RDWR|os.O_CREATE|os.O_TRUNC|os.O_APPEND) != 0
	if wr && !W.mutate("open-for-write", name) {
		return nil, errRefused
	}
	f, err := os.OpenFile(name, flag, perm)
	if err != nil {
		return nil, err
	}
	sf := &File{f: f, w: W, owner: W.S.Cur, path: name, fd: f.Fd(), wr: wr}
	W.files[sf.fd] = sf
	return sf, nil
}

func Create(name string) (*File, error) {
	return OpenFile(name, os.O_RDWR|os.O_CREATE|os.O_TRUNC, 0666)
}

func Open(name string) (*File, error) { return OpenFile(name, os.O_RDONLY, 0) }

func (f *File) Name() string { return f.path }

func (f *File) Stat() (os.FileInfo, error) {
	if err := f.w.enter("fstat", f.path, false); err != nil {
		return nil, err
	}
	return f.f.Stat()
}
func (f *File) Fd() uintptr { return f.fd }

func (f *File) Read(p []byte) (int, error) {
	if f.w.S.Dead() {
		return 0, os.ErrClosed
	}
	return f.f.Read(p)
}

func (f *File) Write(p []byte) (int, error) {
	w := f.w
	if err := w.enter("write", f.path, true); err != nil {
		return 0, err
	}
	if ft := w.fault("shortwrite"); ft != nil {
		w.Fired["short-write"]++
		n := len(p) / 2
		f.f.Write(p[:n])
		w.S.Logf("  FAULT t%d short write %d of %d bytes then ENOSPC", w.S.Cur.ID, n, len(p))
		return n, &fs.PathError{Op: "write", Path: f.path, Err: syscall.ENOSPC}
	}
	return f.f.Write(p)
}

func (f *File) Close() error {
	w := f.w
	if w.S.Dead() {
		f.f.Close()
		return nil
	}
	if f.closed {
		return os.ErrClosed
	}
	w.S.Point(sim.KSys, 0)
	w.S.Logf("  t%d close %s", w.S.Cur.ID, w.Rel(f.path))
	return f.close()
}

func (f *File) close() error {
	f.closed = true
	f.unlock()
	delete(f.w.files, f.fd)
	return f.f.Close()
}

func (f *File) unlock() {
	if f.locked == nil {
		return
	}
	ls := f.w.locks[*f.locked]
	if ls != nil && ls.holder == f {
		ls.holder = nil
		for _, t := range ls.waiters {
			f.w.S.MakeRunnable(t)
		}
		ls.waiters = nil
	}
	f.locked = nil
}

// Flock simulates advisory locks keyed by (device, inode) of the open file,
// like the kernel: a lock on an unlinked inode stays a lock on that inode.
func Flock(fd int, how int) error {
	w := W
	f := w.files[uintptr(fd)]
	if f == nil || f.closed {
		w.S.Point(sim.KSys, 0)
		return syscall.EBADF
	}
	if err := w.enter("flock", f.path, how&syscall.LOCK_UN == 0); err != nil {
		return err
	}
	if how&syscall.LOCK_UN != 0 {
		f.unlock()
		return nil
	}
	st, err := f.f.Stat()
	if err != nil {
		return err
	}
	sys := st.Sys().(*syscall.Stat_t)
	key := lockKey{uint64(sys.Dev), sys.Ino}
	for {
		ls := w.locks[key]
		if ls == nil {
			ls = &lockState{}
			w.locks[key] = ls
		}
		if ls.holder == nil || ls.holder == f {
			ls.holder = f
			f.locked = &key
			w.S.Probe("flock-acquired")
			return nil
		}
		if how&syscall.LOCK_NB != 0 {
			return syscall.EWOULDBLOCK
		}
		w.S.Probe("flock-contended")
		ls.waiters = append(ls.waiters, w.S.Cur)
		w.S.Block(sim.BlockedOther, sim.KSys, 0)
	}
}

// crash: the kernel closes a dead process's descriptors and drops its locks.
func (w *World) crash(t *sim.Task) {
	w.Fired["process-crash"]++
	w.S.Logf("  FAULT t%d process crash (descriptors closed, locks dropped, no clean-up runs)", t.ID)
	for _, f := range w.files {
		if f.owner == t && !f.closed {
			f.close()
		}
	}
}

// CloseAll releases every descriptor still open when the run is over.
func (w *World) CloseAll() {
	for _, f := range w.files {
		if !f.closed {
			f.f.Close()
		}
	}
	W = nil
}

// ---- network -------------------------------------------------------------------

type body struct {
	w              *World
	data           []byte
	off            int
	errAt, truncAt int
}

func (b *body) Read(p []byte) (int, error) {
	w := b.w
	if w.S.Dead() {
		return 0, io.ErrUnexpectedEOF
	}
	w.S.Point(sim.KSys, 0)
	if b.errAt >= 0 && b.off >= b.errAt {
		w.Fired["net-body-error"]++
		w.S.Logf("  FAULT t%d connection reset after %d body bytes", w.S.Cur.ID, b.off)
		return 0, errors.New("simulated network: connection reset by peer")
	}
	end := len(b.data)
	if b.truncAt >= 0 && b.truncAt < end {
		end = b.truncAt
	}
	if b.off >= end {
		if b.truncAt >= 0 && b.truncAt < len(b.data) {
			w.Fired["net-truncated-body"]++
			w.S.Logf("  FAULT t%d body ends cleanly after %d of %d bytes", w.S.Cur.ID, b.off, len(b.data))
			b.truncAt = len(b.data) // count once
		}
		return 0, io.EOF
	}
	n := len(p)
	if n > 16384 {
		n = 16384
	}
	if b.errAt >= 0 && b.off+n > b.errAt {
		n = b.errAt - b.off
	}
	if b.off+n > end {
		n = end - b.off
	}
	copy(p, b.data[b.off:b.off+n])
	b.off += n
	return n, nil
}

func (b *body) Close() error { return nil }

func HTTPGet(url string) (*http.Response, error) {
	w := W
	if err := w.enter("http-get", url, false); err != nil {
		return nil, err
	}
	if f := w.fault("net-connect"); f != nil {
		w.Fired["net-connect-error"]++
		w.S.Logf("  FAULT t%d connect error", w.S.Cur.ID)
		return nil, errors.New("simulated network: dial tcp: connection refused")
	}
	if f := w.fault("net-status"); f != nil {
		w.Fired["net-bad-status"]++
		w.S.Logf("  FAULT t%d HTTP 503", w.S.Cur.ID)
		return &http.Response{StatusCode: 503, Status: "503 Service Unavailable", Body: io.NopCloser(bytes.NewReader([]byte("unavailable")))}, nil
	}
	data, ok := w.Serve(url)
	if !ok {
		return &http.Response{StatusCode: 404, Status: "404 Not Found", Body: io.NopCloser(bytes.NewReader(nil))}, nil
	}
	b := &body{w: w, data: data, errAt: -1, truncAt: -1}
	if f := w.fault("net-bodyerr"); f != nil && len(data) > 0 {
		b.errAt = f.Arg % len(data)
	}
	if f := w.fault("net-truncate"); f != nil && len(data) > 0 {
		b.truncAt = f.Arg % len(data)
	}
	if f := w.fault("net-flip"); f != nil && len(data) > 0 {
		d := append([]byte{}, data...)
		d[f.Arg%len(d)] ^= 0x20
		b.data = d
		w.Fired["net-flipped-byte"]++
		w.S.Logf("  FAULT t%d one body byte flipped at offset %d", w.S.Cur.ID, f.Arg%len(d))
	}
	return &http.Response{StatusCode: 200, Status: "200 OK", Body: b, ContentLength: int64(len(data))}, nil
}

// ---- external commands -----------------------------------------------------------

type Cmd struct {
	name string
	args []string
}

func Command(name string, args ...string) *Cmd { return &Cmd{name, args} }

// Run executes the real program as one atomic step of the simulation.
func (c *Cmd) Run() error {
	w := W
	if err := w.enter("exec", c.name, true); err != nil {
		return err
	}
	for _, a := range c.args {
		if filepath.IsAbs(a) && !w.inSandbox(a) {
			w.violate("escape", "task %d: external %s invoked on %s outside the sandbox (refused)", w.S.Cur.ID, c.name, a)
			return errRefused
		}
	}
	cmd := exec.Command(c.name, c.args...)
	cmd.Env = append(os.Environ(), "LC_ALL=C")
	w.LinksPossible = true
	w.Dirty = true
	return cmd.Run()
}
