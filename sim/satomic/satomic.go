// Package satomic stands in for sync/atomic (in an llgo build: LLVM atomic
// instructions selected by cl/instr.go).  Every operation is one indivisible
// step preceded by a sim point, i.e. sequentially consistent atomics whose
// interleaving the simulator decides.  Hardware indivisibility itself is not
// (and cannot be) exercised here.
package satomic

import (
	"unsafe"

	"verif/sim"
)

type num interface {
	~int32 | ~int64 | ~uint32 | ~uint64 | ~uintptr
}

func point(addr unsafe.Pointer) {
	s := sim.S
	if s == nil || s.Cur == nil {
		return // set-up code outside any task
	}
	s.Point(sim.KAtomic, s.ObjOf(addr))
}

func swap[T any](addr *T, new T) (old T) {
	point(unsafe.Pointer(addr))
	old = *addr
	*addr = new
	return
}

func cas[T comparable](addr *T, old, new T) bool {
	point(unsafe.Pointer(addr))
	if *addr == old {
		*addr = new
		return true
	}
	return false
}

func add[T num](addr *T, delta T) T {
	point(unsafe.Pointer(addr))
	*addr += delta
	return *addr
}

func load[T any](addr *T) T {
	point(unsafe.Pointer(addr))
	return *addr
}

func store[T any](addr *T, v T) {
	point(unsafe.Pointer(addr))
	*addr = v
}

func and[T num](addr *T, mask T) (old T) {
	point(unsafe.Pointer(addr))
	old = *addr
	*addr &= mask
	return
}

func or[T num](addr *T, mask T) (old T) {
	point(unsafe.Pointer(addr))
	old = *addr
	*addr |= mask
	return
}

func SwapInt32(addr *int32, new int32) int32                              { return swap(addr, new) }
func SwapInt64(addr *int64, new int64) int64                              { return swap(addr, new) }
func SwapUint32(addr *uint32, new uint32) uint32                          { return swap(addr, new) }
func SwapUint64(addr *uint64, new uint64) uint64                          { return swap(addr, new) }
func SwapUintptr(addr *uintptr, new uintptr) uintptr                      { return swap(addr, new) }
func SwapPointer(addr *unsafe.Pointer, new unsafe.Pointer) unsafe.Pointer { return swap(addr, new) }

func CompareAndSwapInt32(addr *int32, old, new int32) bool       { return cas(addr, old, new) }
func CompareAndSwapInt64(addr *int64, old, new int64) bool       { return cas(addr, old, new) }
func CompareAndSwapUint32(addr *uint32, old, new uint32) bool    { return cas(addr, old, new) }
func CompareAndSwapUint64(addr *uint64, old, new uint64) bool    { return cas(addr, old, new) }
func CompareAndSwapUintptr(addr *uintptr, old, new uintptr) bool { return cas(addr, old, new) }
func CompareAndSwapPointer(addr *unsafe.Pointer, old, new unsafe.Pointer) bool {
	return cas(addr, old, new)
}

func AddInt32(addr *int32, delta int32) int32         { return add(addr, delta) }
func AddUint32(addr *uint32, delta uint32) uint32     { return add(addr, delta) }
func AddInt64(addr *int64, delta int64) int64         { return add(addr, delta) }
func AddUint64(addr *uint64, delta uint64) uint64     { return add(addr, delta) }
func AddUintptr(addr *uintptr, delta uintptr) uintptr { return add(addr, delta) }

func LoadInt32(addr *int32) int32                     { return load(addr) }
func LoadInt64(addr *int64) int64                     { return load(addr) }
func LoadUint32(addr *uint32) uint32                  { return load(addr) }
func LoadUint64(addr *uint64) uint64                  { return load(addr) }
func LoadUintptr(addr *uintptr) uintptr               { return load(addr) }
func LoadPointer(addr *unsafe.Pointer) unsafe.Pointer { return load(addr) }

func StoreInt32(addr *int32, v int32)                     { store(addr, v) }
func StoreInt64(addr *int64, v int64)                     { store(addr, v) }
func StoreUint32(addr *uint32, v uint32)                  { store(addr, v) }
func StoreUint64(addr *uint64, v uint64)                  { store(addr, v) }
func StoreUintptr(addr *uintptr, v uintptr)               { store(addr, v) }
func StorePointer(addr *unsafe.Pointer, v unsafe.Pointer) { store(addr, v) }

func AndInt32(addr *int32, mask int32) int32         { return and(addr, mask) }
func AndUint32(addr *uint32, mask uint32) uint32     { return and(addr, mask) }
func AndInt64(addr *int64, mask int64) int64         { return and(addr, mask) }
func AndUint64(addr *uint64, mask uint64) uint64     { return and(addr, mask) }
func AndUintptr(addr *uintptr, mask uintptr) uintptr { return and(addr, mask) }
func OrInt32(addr *int32, mask int32) int32          { return or(addr, mask) }
func OrUint32(addr *uint32, mask uint32) uint32      { return or(addr, mask) }
func OrInt64(addr *int64, mask int64) int64          { return or(addr, mask) }
func OrUint64(addr *uint64, mask uint64) uint64      { return or(addr, mask) }
func OrUintptr(addr *uintptr, mask uintptr) uintptr  { return or(addr, mask) }

// typed wrappers as in sync/atomic/type.go

type Int32 struct{ v int32 }

func (x *Int32) Load() int32                    { return LoadInt32(&x.v) }
func (x *Int32) Store(v int32)                  { StoreInt32(&x.v, v) }
func (x *Int32) Swap(n int32) int32             { return SwapInt32(&x.v, n) }
func (x *Int32) CompareAndSwap(o, n int32) bool { return CompareAndSwapInt32(&x.v, o, n) }
func (x *Int32) Add(d int32) int32              { return AddInt32(&x.v, d) }
func (x *Int32) And(m int32) int32              { return AndInt32(&x.v, m) }
func (x *Int32) Or(m int32) int32               { return OrInt32(&x.v, m) }

type Int64 struct{ v int64 }

func (x *Int64) Load() int64                    { return LoadInt64(&x.v) }
func (x *Int64) Store(v int64)                  { StoreInt64(&x.v, v) }
func (x *Int64) Swap(n int64) int64             { return SwapInt64(&x.v, n) }
func (x *Int64) CompareAndSwap(o, n int64) bool { return CompareAndSwapInt64(&x.v, o, n) }
func (x *Int64) Add(d int64) int64              { return AddInt64(&x.v, d) }
func (x *Int64) And(m int64) int64              { return AndInt64(&x.v, m) }
func (x *Int64) Or(m int64) int64               { return OrInt64(&x.v, m) }

type Uint32 struct{ v uint32 }

func (x *Uint32) Load() uint32                    { return LoadUint32(&x.v) }
func (x *Uint32) Store(v uint32)                  { StoreUint32(&x.v, v) }
func (x *Uint32) Swap(n uint32) uint32            { return SwapUint32(&x.v, n) }
func (x *Uint32) CompareAndSwap(o, n uint32) bool { return CompareAndSwapUint32(&x.v, o, n) }
func (x *Uint32) Add(d uint32) uint32             { return AddUint32(&x.v, d) }
func (x *Uint32) And(m uint32) uint32             { return AndUint32(&x.v, m) }
func (x *Uint32) Or(m uint32) uint32              { return OrUint32(&x.v, m) }

type Uint64 struct{ v uint64 }

func (x *Uint64) Load() uint64                    { return LoadUint64(&x.v) }
func (x *Uint64) Store(v uint64)                  { StoreUint64(&x.v, v) }
func (x *Uint64) Swap(n uint64) uint64            { return SwapUint64(&x.v, n) }
func (x *Uint64) CompareAndSwap(o, n uint64) bool { return CompareAndSwapUint64(&x.v, o, n) }
func (x *Uint64) Add(d uint64) uint64             { return AddUint64(&x.v, d) }
func (x *Uint64) And(m uint64) uint64             { return AndUint64(&x.v, m) }
func (x *Uint64) Or(m uint64) uint64              { return OrUint64(&x.v, m) }

type Uintptr struct{ v uintptr }

func (x *Uintptr) Load() uintptr                    { return LoadUintptr(&x.v) }
func (x *Uintptr) Store(v uintptr)                  { StoreUintptr(&x.v, v) }
func (x *Uintptr) Swap(n uintptr) uintptr           { return SwapUintptr(&x.v, n) }
func (x *Uintptr) CompareAndSwap(o, n uintptr) bool { return CompareAndSwapUintptr(&x.v, o, n) }
func (x *Uintptr) Add(d uintptr) uintptr            { return AddUintptr(&x.v, d) }

type Bool struct{ v uint32 }

func b32(b bool) uint32 {
	if b {
		return 1
	}
	return 0
}
func (x *Bool) Load() bool                    { return LoadUint32(&x.v) != 0 }
func (x *Bool) Store(v bool)                  { StoreUint32(&x.v, b32(v)) }
func (x *Bool) Swap(n bool) bool              { return SwapUint32(&x.v, b32(n)) != 0 }
func (x *Bool) CompareAndSwap(o, n bool) bool { return CompareAndSwapUint32(&x.v, b32(o), b32(n)) }

type Pointer[T any] struct{ v unsafe.Pointer }

func (x *Pointer[T]) Load() *T     { return (*T)(LoadPointer(&x.v)) }
func (x *Pointer[T]) Store(v *T)   { StorePointer(&x.v, unsafe.Pointer(v)) }
func (x *Pointer[T]) Swap(n *T) *T { return (*T)(SwapPointer(&x.v, unsafe.Pointer(n))) }
func (x *Pointer[T]) CompareAndSwap(o, n *T) bool {
	return CompareAndSwapPointer(&x.v, unsafe.Pointer(o), unsafe.Pointer(n))
}
