#!/bin/bash
# Run once after a fresh restore, offline: warms the Go build cache for every
# harness (each check rebuilds from /repo's working tree anyway).
cd "$(dirname "$0")" || exit 1
rc=0
for id in $(ls harness); do
  ID=$(echo $id | tr a-z A-Z)
  VERIF_KEEP_BIN=/dev/null VERIF_BUILD_ONLY=1 ./vcheck $ID >/dev/null 2>setup.$id.log || { echo "setup: $ID failed"; cat setup.$id.log; rc=1; }
  rm -f setup.$id.log
done
exit $rc
