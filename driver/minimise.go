package driver

import (
	"time"

	"verif/sim"
)

// Minimise shrinks a violating run: first the scenario (workload, config,
// fault plan), then the decision list (fewer preemptions, fewer faults),
// accepting a candidate only if the same violation class reappears.  The
// returned result comes from a final run whose recorded decisions are all
// valid (no fallback), so the replay file replays exactly.
func Minimise(p Prop, sc Scenario, res *Result, same func(*Result) bool, deadline time.Time) (Scenario, *Result) {
	try := func(c Scenario, choices []sim.Choice) *Result {
		r := p.Run(c, sim.ReplayChoices(choices), false)
		if same(r) {
			return r
		}
		return nil
	}
	cur, curRes := sc, res
	// 1. scenario
	for progress := true; progress && time.Now().Before(deadline); {
		progress = false
		for _, cand := range p.Shrink(cur) {
			if time.Now().After(deadline) {
				break
			}
			r := try(cand, curRes.Choices)
			if r == nil {
				// the old decisions may not fit the smaller scenario: try a few fresh seeds
				for k := uint64(0); k < 12 && r == nil; k++ {
					ch := sim.NewChoices(sim.RunSeed(0xabcdef, k))
					r2 := p.Run(cand, ch, false)
					if same(r2) {
						r = r2
					}
				}
			}
			if r != nil {
				cur, curRes = cand, r
				progress = true
				break
			}
		}
	}
	// 2. decisions: replace chunks by the default decision (-1), then truncate
	choices := append([]sim.Choice{}, curRes.Choices...)
	for chunk := len(choices) / 2; chunk >= 1 && time.Now().Before(deadline); chunk /= 2 {
		for i := 0; i+chunk <= len(choices) && time.Now().Before(deadline); i += chunk {
			cand := append([]sim.Choice{}, choices...)
			changed := false
			for j := i; j < i+chunk; j++ {
				if cand[j].V != -1 && !(cand[j].K != 't' && cand[j].V == 0) {
					if cand[j].K == 't' {
						cand[j].V = -1
					} else {
						cand[j].V = 0
					}
					changed = true
				}
			}
			if !changed {
				continue
			}
			if r := try(cur, cand); r != nil {
				choices = cand
				// keep length alignment: use forced list as is
				curRes = r
			}
		}
	}
	// 3. final run from the actually-taken decisions
	final := p.Run(cur, sim.ReplayChoices(curRes.Choices), true)
	if !same(final) {
		// should not happen: fall back to the unminimised run
		return sc, p.Run(sc, sim.ReplayChoices(res.Choices), true)
	}
	final2 := p.Run(cur, sim.ReplayChoices(final.Choices), true)
	if same(final2) {
		return cur, final2
	}
	return cur, final
}
