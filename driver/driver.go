// Package driver is the batch/replay/minimise/evidence machinery shared by all
// property harnesses.  A harness binary is one property: it implements Prop and
// calls Main.  A batch forks worker processes of the same binary (one simulated
// run at a time per process, because the code under test has package-level
// state); run i of a batch uses seed RunSeed(VERIF_SEED, i) whatever the worker
// count, so batches are reproducible.
package driver

import (
	"bufio"
	"encoding/json"
	"flag"
	"fmt"
	"os"
	"os/exec"
	"path/filepath"
	"sort"
	"strconv"
	"strings"
	"time"

	"verif/sim"
)

type Result struct {
	Violation  string         `json:"violation,omitempty"` // class; "" = none
	Detail     string         `json:"detail,omitempty"`
	Nontrivial bool           `json:"nontrivial"`
	TraceHash  uint64         `json:"trace_hash"`
	StateHash  uint64         `json:"state_hash,omitempty"`
	Steps      int            `json:"steps"`
	SimTime    int64          `json:"sim_time"`
	Faults     map[string]int `json:"faults,omitempty"` // fired counts per fault kind
	Probes     map[string]int `json:"probes,omitempty"`
	Counters   map[string]int `json:"counters,omitempty"` // oracle bookkeeping (porcupine ok/unknown, ...)
	Choices    []sim.Choice   `json:"-"`
	Diverged   int            `json:"diverged,omitempty"`
	Log        []string       `json:"log,omitempty"` // event log (only when keep)
	Obs        []string       `json:"observations,omitempty"`
	// Items: the individual faults that make up the violation, each with
	// structural tags.  A run counts as a known finding only if every item
	// matches a listed predicate.
	Items []Item `json:"items,omitempty"`
}

type Item struct {
	Tags   []string `json:"tags"`
	Detail string   `json:"detail"`
}

// Pred is the generic known-finding predicate: class, tags every item must
// carry, tags no item may carry.
type Pred struct {
	Class string   `json:"class"`
	All   []string `json:"all"`
	None  []string `json:"none"`
}

func (p *Pred) matchItem(class string, it Item) bool {
	if p.Class != class {
		return false
	}
	has := map[string]bool{}
	for _, t := range it.Tags {
		has[t] = true
	}
	for _, t := range p.All {
		if !has[t] {
			return false
		}
	}
	for _, t := range p.None {
		if has[t] {
			return false
		}
	}
	return true
}

// Classify returns the ids of the known findings that together explain every
// item of the violation, or nil if some item is not explained.
func Classify(known []knownEntry, res *Result) []string {
	if res.Violation == "" || len(known) == 0 {
		return nil
	}
	items := res.Items
	if len(items) == 0 {
		items = []Item{{Detail: res.Detail}}
	}
	seen := map[string]bool{}
	var ids []string
	for _, it := range items {
		found := ""
		for _, k := range known {
			if k.pred.matchItem(res.Violation, it) {
				found = k.ID
				break
			}
		}
		if found == "" {
			return nil
		}
		if !seen[found] {
			seen[found] = true
			ids = append(ids, found)
		}
	}
	sort.Strings(ids)
	return ids
}

type Scenario interface{}

type Prop interface {
	ID() string
	// Generate draws a scenario (workload + config + fault plan) from rng.
	Generate(rng *sim.Rng, tier string, runIndex int) Scenario
	Decode(b []byte) (Scenario, error)
	// Run executes one simulated run.  All decisions come from ch.
	Run(sc Scenario, ch *sim.Choices, keep bool) *Result
	// Shrink proposes strictly smaller scenarios.
	Shrink(sc Scenario) []Scenario
	// Describe returns static evidence text.
	Describe() Description
}

// ExtraPhaser is implemented by properties that have a second layer of
// checking with its own way of producing executions (e.g. compiled programs
// under an LD_PRELOAD scheduler).  It runs in the parent process after the batch.
type ExtraPhaser interface {
	ExtraPhase(tier string, seed uint64, deadline time.Time) (*ExtraResult, error)
	ReplayExtra(raw []byte) (class, detail string, err error)
}

type ExtraResult struct {
	Name        string
	Evaluations int
	Coverage    map[string]any
	Violations  []ExtraViolation
}

type ExtraViolation struct {
	Class, Detail, Name string
	Replay              []byte
	// Tags are structural facts about the violating execution, matched against
	// the predicates of the listed known findings like the tags of a first-layer item.
	Tags []string
}

// Cleaner is implemented by properties that keep per-process scratch state
// (sandboxes) across runs; it is called before the process exits.
type Cleaner interface{ Cleanup() }

func cleanup(p Prop) {
	if c, ok := p.(Cleaner); ok {
		c.Cleanup()
	}
}

type Description struct {
	Rule                        string
	Components                  []Component
	Assumptions                 []string
	LiftInfo                    [][2]string
	FaultKinds                  []string
	Workers                     int     // preferred number of worker processes (0 = 16)
	QuickBudget, ThoroughBudget float64 // exploration wall-clock seconds per tier (0 = 45 / 1200)
	RunTimeout                  float64 // wall-clock watchdog per run in seconds (0 = 120)
}

type Component struct {
	Name string `json:"name"`
	Real bool   `json:"real_code"`
	What string `json:"what"`
}

type Replay struct {
	Property    string          `json:"property"`
	Seed        uint64          `json:"seed"`
	RunIndex    int             `json:"run_index"`
	Tier        string          `json:"tier"`
	Class       string          `json:"violation_class"`
	Detail      string          `json:"detail"`
	Scenario    json.RawMessage `json:"scenario"`
	Choices     string          `json:"choices"`
	TraceHash   uint64          `json:"trace_hash"`
	Log         []string        `json:"event_log"`
	LiftInfo    [][2]string     `json:"lifted_sources"`
	Minimised   bool            `json:"minimised"`
	CrashWindow int             `json:"crash_window,omitempty"` // process-crash: number of preceding runs of the same worker to re-execute
	CrashStride int             `json:"crash_stride,omitempty"`
	OrigSteps   int             `json:"steps_before_minimisation"`
}

func EncodeChoices(cs []sim.Choice) string {
	var sb strings.Builder
	for i, c := range cs {
		if i > 0 {
			sb.WriteByte(' ')
		}
		sb.WriteByte(c.K)
		sb.WriteString(strconv.Itoa(c.V))
	}
	return sb.String()
}

func DecodeChoices(s string) []sim.Choice {
	var out []sim.Choice
	for _, f := range strings.Fields(s) {
		v, _ := strconv.Atoi(f[1:])
		out = append(out, sim.Choice{K: f[0], V: v})
	}
	return out
}

type workerOut struct {
	Runs        int               `json:"runs"`
	Nontrivial  int               `json:"nontrivial"`
	Hashes      []uint64          `json:"hashes"` // distinct trace hashes of non-trivial runs (capped)
	HashCapped  bool              `json:"hash_capped"`
	States      []uint64          `json:"states"`
	Steps       int64             `json:"steps"`
	SimTime     int64             `json:"sim_time"`
	Faults      map[string]int    `json:"faults"`
	FaultRuns   map[string]int    `json:"fault_runs"`
	Probes      map[string]int    `json:"probes"`
	Counters    map[string]int    `json:"counters"`
	Violations  []violation       `json:"violations"`
	VioCount    map[string]int    `json:"vio_count"`
	KnownCount  map[string]int    `json:"known_count"`
	Samples     []json.RawMessage `json:"samples"`
	Obs         map[string]int    `json:"obs"`
	FirstSeed   uint64            `json:"first_seed"`
	LastIndex   int               `json:"last_index"`
	Strategies  map[string]int    `json:"strategies"`
	WallSeconds float64           `json:"wall_s"`
}

type violation struct {
	Known    []string        `json:"known,omitempty"`
	RunIndex int             `json:"run_index"`
	Seed     uint64          `json:"seed"`
	Class    string          `json:"class"`
	Detail   string          `json:"detail"`
	Scenario json.RawMessage `json:"scenario"`
	Choices  string          `json:"choices"`
	Steps    int             `json:"steps"`
}

const hashCap = 400000

var verifDir = "/verif"

func Main(p Prop) {
	tier := flag.String("tier", "quick", "quick|thorough")
	replay := flag.String("replay", "", "replay file")
	worker := flag.Bool("worker", false, "internal")
	from := flag.Int("from", 0, "internal")
	stride := flag.Int("stride", 1, "internal")
	count := flag.Int("count", 0, "runs in the batch (0 = tier default)")
	budget := flag.Float64("budget", 0, "wall-clock seconds for the exploration phase (0 = tier default)")
	workers := flag.Int("workers", 16, "worker processes")
	deadline := flag.Int64("deadline", 0, "internal: unix ms")
	one := flag.Int("one", -1, "run a single run index of the batch and print its result")
	detlog := flag.Bool("detlog", false, "with -one: print the event log (determinism self-test)")
	noMin := flag.Bool("nomin", false, "skip minimisation")
	vdir := flag.String("verif", "/verif", "verif directory (evidence, replays, known findings)")
	flag.Parse()
	verifDir = *vdir
	seed := uint64(1)
	if s := os.Getenv("VERIF_SEED"); s != "" {
		if v, err := strconv.ParseUint(s, 10, 64); err == nil {
			seed = v
		} else if v, err := strconv.ParseInt(s, 10, 64); err == nil {
			seed = uint64(v)
		}
	}
	if t := os.Getenv("VERIF_TIER"); t != "" && !isFlagSet("tier") {
		*tier = t
	}
	switch {
	case *replay != "":
		rc := doReplay(p, *replay)
		cleanup(p)
		os.Exit(rc)
	case *worker:
		runWorker(p, seed, *tier, *from, *stride, *count, *deadline)
		cleanup(p)
	case *one >= 0:
		rs := sim.RunSeed(seed, uint64(*one))
		ch := sim.NewChoices(rs)
		sc := p.Generate(ch.Rng(), *tier, *one)
		res := p.Run(sc, ch, *detlog)
		if *detlog {
			b, _ := json.Marshal(sc)
			fmt.Printf("scenario %s\n", b)
			for _, l := range res.Log {
				fmt.Println(l)
			}
			fmt.Printf("choices %s\n", EncodeChoices(res.Choices))
		}
		fmt.Printf("run %d seed %d hash %x steps %d violation %q %s\n", *one, rs, res.TraceHash, res.Steps, res.Violation, res.Detail)
		cleanup(p)
	default:
		if !isFlagSet("workers") && p.Describe().Workers > 0 {
			*workers = p.Describe().Workers
		}
		rc := batch(p, seed, *tier, *count, *budget, *workers, *noMin)
		cleanup(p)
		os.Exit(rc)
	}
}

func isFlagSet(name string) bool {
	set := false
	flag.Visit(func(f *flag.Flag) {
		if f.Name == name {
			set = true
		}
	})
	return set
}

func runWorker(p Prop, seed uint64, tier string, from, stride, count int, deadlineMs int64) {
	start := time.Now()
	out := workerOut{Faults: map[string]int{}, FaultRuns: map[string]int{}, Probes: map[string]int{}, Counters: map[string]int{},
		VioCount: map[string]int{}, KnownCount: map[string]int{}, Obs: map[string]int{}, Strategies: map[string]int{}}
	known := loadKnown(p.ID())
	watchdog := 120 * time.Second
	if t := p.Describe().RunTimeout; t > 0 {
		watchdog = time.Duration(t * float64(time.Second))
	}
	kept := map[string]int{}
	hashes := map[uint64]struct{}{}
	states := map[uint64]struct{}{}
	var progress *os.File
	if pf := os.Getenv("VERIF_PROGRESS_FILE"); pf != "" {
		progress, _ = os.OpenFile(pf, os.O_CREATE|os.O_WRONLY, 0o644)
	}
	for i := from; i < count; i += stride {
		if deadlineMs > 0 && time.Now().UnixMilli() > deadlineMs {
			break
		}
		if progress != nil {
			progress.WriteAt([]byte(fmt.Sprintf("%-20d", i)), 0)
		}
		rs := sim.RunSeed(seed, uint64(i))
		ch := sim.NewChoices(rs)
		sc := p.Generate(ch.Rng(), tier, i)
		done := make(chan *Result, 1)
		go func() { done <- p.Run(sc, ch, false) }()
		var res *Result
		select {
		case res = <-done:
		case <-time.After(watchdog):
			b, _ := json.Marshal(sc)
			fmt.Fprintf(os.Stderr, "WATCHDOG: run %d (seed %d) did not finish in %v wall-clock; scenario %s\n", i, rs, watchdog, b)
			os.Exit(2)
		}
		out.Runs++
		out.LastIndex = i
		out.Steps += int64(res.Steps)
		out.SimTime += res.SimTime
		for k, v := range res.Faults {
			out.Faults[k] += v
			if v > 0 {
				out.FaultRuns[k]++
			}
		}
		for k, v := range res.Probes {
			out.Probes[k] += v
		}
		for k, v := range res.Counters {
			out.Counters[k] += v
		}
		for _, o := range res.Obs {
			out.Obs[o]++
		}
		if res.Nontrivial {
			out.Nontrivial++
			if len(hashes) < hashCap {
				hashes[res.TraceHash] = struct{}{}
			} else {
				out.HashCapped = true
			}
		}
		if res.StateHash != 0 && len(states) < hashCap {
			states[res.StateHash] = struct{}{}
		}
		if res.Violation != "" {
			ids := Classify(known, res)
			if os.Getenv("VERIF_DEBUG_TAGS") != "" {
				for _, it := range res.Items {
					out.Obs[res.Violation+" "+strings.Join(it.Tags, ",")+" => "+strings.Join(ids, "+")]++
				}
			}
			key := res.Violation + "|" + strings.Join(ids, "+")
			kept[key]++
			if ids == nil {
				out.VioCount[res.Violation]++
			} else {
				out.KnownCount[strings.Join(ids, "+")]++
			}
			if (ids == nil && kept[key] <= 4 && len(out.Violations) < 40) || (ids != nil && kept[key] <= 1) {
				b, _ := json.Marshal(sc)
				out.Violations = append(out.Violations, violation{ids, i, rs, res.Violation, res.Detail, b, EncodeChoices(res.Choices), res.Steps})
			}
		}
		if len(out.Samples) < 2 && res.Nontrivial && from == 0 {
			// a sample is a complete run: re-run with the log kept
			r2 := p.Run(sc, sim.ReplayChoices(res.Choices), true)
			b, _ := json.Marshal(map[string]any{"run_index": i, "seed": rs, "scenario": sc, "choices": EncodeChoices(r2.Choices), "event_log": trimLog(r2.Log, 60), "outcome": orNone(r2.Violation)})
			out.Samples = append(out.Samples, b)
		}
	}
	for h := range hashes {
		out.Hashes = append(out.Hashes, h)
	}
	for h := range states {
		out.States = append(out.States, h)
	}
	out.WallSeconds = time.Since(start).Seconds()
	w := bufio.NewWriter(os.Stdout)
	json.NewEncoder(w).Encode(out)
	w.Flush()
}

func orNone(s string) string {
	if s == "" {
		return "no violation"
	}
	return s
}

func trimLog(l []string, n int) []string {
	if len(l) <= n {
		return l
	}
	out := append([]string{}, l[:n/2]...)
	out = append(out, fmt.Sprintf("... %d events omitted ...", len(l)-n))
	return append(out, l[len(l)-n/2:]...)
}

type knownFile struct {
	Findings []knownEntry `json:"findings"`
}

type knownEntry struct {
	Property  string          `json:"property"`
	ID        string          `json:"id"`
	Status    string          `json:"status"` // "known" | "fixed"
	Line      string          `json:"line"`   // text after "property=<id> "
	Predicate json.RawMessage `json:"predicate"`
	What      string          `json:"what"`
	pred      Pred
}

func loadKnown(prop string) []knownEntry {
	b, err := os.ReadFile(filepath.Join(verifDir, "known_findings.json"))
	if err != nil {
		return nil
	}
	var kf knownFile
	if err := json.Unmarshal(b, &kf); err != nil {
		fmt.Fprintf(os.Stderr, "known_findings.json: %v\n", err)
		os.Exit(2)
	}
	var out []knownEntry
	for _, e := range kf.Findings {
		if e.Property == prop && e.Status == "known" {
			if err := json.Unmarshal(e.Predicate, &e.pred); err != nil || e.pred.Class == "" {
				fmt.Fprintf(os.Stderr, "known_findings.json: entry %s: bad predicate\n", e.ID)
				os.Exit(2)
			}
			out = append(out, e)
		}
	}
	return out
}

func batch(p Prop, seed uint64, tier string, count int, budget float64, workers int, noMin bool) int {
	start := time.Now()
	if count == 0 {
		if tier == "thorough" {
			count = 1 << 40
		} else {
			count = 1 << 40
		}
	}
	if budget == 0 {
		d := p.Describe()
		if tier == "thorough" {
			budget = 1200
			if d.ThoroughBudget > 0 {
				budget = d.ThoroughBudget
			}
		} else {
			budget = 45
			if d.QuickBudget > 0 {
				budget = d.QuickBudget
			}
		}
	}
	if v := os.Getenv("VERIF_BUDGET_S"); v != "" {
		if f, err := strconv.ParseFloat(v, 64); err == nil {
			budget = f
		}
	}
	deadline := time.Now().Add(time.Duration(budget * float64(time.Second))).UnixMilli()
	self, _ := os.Executable()
	outs := make([]workerOut, workers)
	errs := make([]error, workers)
	stderrs := make([]string, workers)
	doneCh := make(chan int, workers)
	progBase := ""
	if st, err := os.Stat("/dev/shm"); err == nil && st.IsDir() {
		progBase = "/dev/shm"
	}
	progDir, _ := os.MkdirTemp(progBase, "verif-progress-")
	defer os.RemoveAll(progDir)
	for w := 0; w < workers; w++ {
		w := w
		go func() {
			cmd := exec.Command(self, "-worker", "-tier", tier, "-from", strconv.Itoa(w), "-stride", strconv.Itoa(workers),
				"-count", strconv.Itoa(count), "-deadline", strconv.FormatInt(deadline, 10), "-verif", verifDir)
			cmd.Env = append(os.Environ(), "VERIF_SEED="+strconv.FormatUint(seed, 10), "GOMAXPROCS=2",
				"VERIF_PROGRESS_FILE="+filepath.Join(progDir, strconv.Itoa(w)))
			var eb strings.Builder
			cmd.Stderr = &eb
			b, err := cmd.Output()
			stderrs[w] = eb.String()
			if err == nil {
				err = json.Unmarshal(b, &outs[w])
			}
			errs[w] = err
			doneCh <- w
		}()
	}
	for i := 0; i < workers; i++ {
		<-doneCh
	}
	var crashes []int
	for w, err := range errs {
		if err != nil {
			// a worker died.  If the Go runtime killed it (memory fault, fatal
			// error) while executing the code under test, that is a finding about
			// the run it was executing, provided it repeats in a fresh process.
			if strings.Contains(stderrs[w], "WATCHDOG") || !(strings.Contains(stderrs[w], "fatal error:") || strings.Contains(stderrs[w], "unexpected signal") || strings.Contains(stderrs[w], "goroutine ")) {
				fmt.Fprintf(os.Stderr, "worker %d failed: %v\n%s\n", w, err, tail(stderrs[w], 3000))
				return 2
			}
			b, rerr := os.ReadFile(filepath.Join(progDir, strconv.Itoa(w)))
			idx, cerr := strconv.Atoi(strings.TrimSpace(string(b)))
			if rerr != nil || cerr != nil {
				fmt.Fprintf(os.Stderr, "worker %d crashed and left no progress record: %v\n%s\n", w, err, tail(stderrs[w], 3000))
				return 2
			}
			crashes = append(crashes, idx)
			outs[w] = workerOut{}
		}
	}
	crashExit := 0
	var unrepro []int
	for _, idx := range crashes {
		detail := "the code under test brought the process down (memory fault or fatal runtime error) in this run; replay re-executes run " + strconv.Itoa(idx) + " of batch seed " + strconv.FormatUint(seed, 10) + " in a child process"
		window := 0
		if !crashesAgain(self, seed, tier, idx, 0, 0) {
			// not this run alone: memory damaged by an earlier run of the same
			// worker may have surfaced here.  Re-execute the worker's last runs.
			window = 200
			if !crashesAgain(self, seed, tier, idx, workers, window) {
				unrepro = append(unrepro, idx)
				continue
			}
			detail = fmt.Sprintf("the code under test damaged memory and brought the process down: re-executing the worker's %d runs up to run %d (stride %d) of batch seed %d in a child process crashes again; run %d alone does not", window, idx, workers, seed, idx)
		}
		rs := sim.RunSeed(seed, uint64(idx))
		ch := sim.NewChoices(rs)
		scb, _ := json.Marshal(p.Generate(ch.Rng(), tier, idx))
		rp := Replay{Property: p.ID(), Seed: seed, RunIndex: idx, Tier: tier, Class: "process-crash", Scenario: scb, LiftInfo: p.Describe().LiftInfo,
			Detail: detail, CrashWindow: window, CrashStride: workers}
		os.MkdirAll(filepath.Join(verifDir, "replays"), 0o755)
		path := filepath.Join(verifDir, "replays", fmt.Sprintf("%s-%d-%d-crash.json", p.ID(), seed, idx))
		b, _ := json.MarshalIndent(rp, "", " ")
		os.WriteFile(path, b, 0o644)
		fmt.Printf("VIOLATION property=%s replay=%s\n  class=process-crash run=%d: %s\n", p.ID(), path, idx, rp.Detail)
		crashExit = 1
	}
	// merge
	tot := workerOut{Faults: map[string]int{}, FaultRuns: map[string]int{}, Probes: map[string]int{}, Counters: map[string]int{}, VioCount: map[string]int{}, KnownCount: map[string]int{}, Obs: map[string]int{}}
	hashes := map[uint64]struct{}{}
	states := map[uint64]struct{}{}
	var vios []violation
	for _, o := range outs {
		tot.Runs += o.Runs
		tot.Nontrivial += o.Nontrivial
		tot.Steps += o.Steps
		tot.SimTime += o.SimTime
		tot.HashCapped = tot.HashCapped || o.HashCapped
		for _, h := range o.Hashes {
			hashes[h] = struct{}{}
		}
		for _, h := range o.States {
			states[h] = struct{}{}
		}
		for k, v := range o.Faults {
			tot.Faults[k] += v
		}
		for k, v := range o.FaultRuns {
			tot.FaultRuns[k] += v
		}
		for k, v := range o.Probes {
			tot.Probes[k] += v
		}
		for k, v := range o.Counters {
			tot.Counters[k] += v
		}
		for k, v := range o.VioCount {
			tot.VioCount[k] += v
		}
		for k, v := range o.KnownCount {
			tot.KnownCount[k] += v
		}
		for k, v := range o.Obs {
			tot.Obs[k] += v
		}
		vios = append(vios, o.Violations...)
		tot.Samples = append(tot.Samples, o.Samples...)
	}
	for cls, n := range tot.VioCount {
		if strings.HasPrefix(cls, "infra-") {
			for _, v := range vios {
				if v.Class == cls {
					fmt.Fprintf(os.Stderr, "INFRASTRUCTURE (%d runs): %s\n", n, v.Detail)
					break
				}
			}
			return 2
		}
	}
	exploreWall := time.Since(start).Seconds()
	sort.Slice(vios, func(i, j int) bool { return vios[i].RunIndex < vios[j].RunIndex })

	// violations: minimise, replay-verify, match against known findings
	known := loadKnown(p.ID())
	exit := crashExit
	var reported []map[string]any
	for _, idx := range crashes {
		reported = append(reported, map[string]any{"class": "process-crash", "run_index": idx, "replay": "yes"})
	}
	knownHits := map[string]int{}
	perClass := map[string]int{}
	minDeadline := time.Now().Add(150 * time.Second)
	if tier == "thorough" {
		minDeadline = time.Now().Add(600 * time.Second)
	}
	unlistedPrinted := 0
	knownByID := map[string]knownEntry{}
	for _, k := range known {
		knownByID[k.ID] = k
	}
	for _, v := range vios {
		sc, err := p.Decode(v.Scenario)
		if err != nil {
			fmt.Fprintf(os.Stderr, "decode: %v\n", err)
			return 2
		}
		choices := DecodeChoices(v.Choices)
		res := p.Run(sc, sim.ReplayChoices(choices), true)
		ids := Classify(known, res)
		if res.Violation != "" && ids == nil && v.Known == nil && res.Violation != v.Class {
			// both runs violate, with different symptoms (e.g. the code under test
			// read memory out of bounds): report what this process observed
			v.Class = res.Violation
		}
		if res.Violation != v.Class || strings.Join(ids, "+") != strings.Join(v.Known, "+") {
			fmt.Fprintf(os.Stderr, "INFRASTRUCTURE: run %d (seed %d) reported %q %v in the batch but %q %v when re-run in the parent process: the run is not a pure function of its decisions\n", v.RunIndex, v.Seed, v.Class, v.Known, res.Violation, ids)
			return 2
		}
		if ids != nil {
			for _, id := range ids {
				if knownHits[id] == 0 {
					fmt.Printf("KNOWN-FINDING: property=%s %s\n", p.ID(), knownByID[id].Line)
				}
				knownHits[id]++
			}
			continue
		}
		perClass[v.Class]++
		if perClass[v.Class] > 4 || (time.Now().After(minDeadline) && perClass[v.Class] > 1) {
			continue
		}
		minimised := false
		if !noMin {
			same := func(r *Result) bool { return r.Violation == v.Class && Classify(known, r) == nil }
			sc, res = Minimise(p, sc, res, same, time.Now().Add(25*time.Second))
			minimised = true
		}
		scb, _ := json.Marshal(sc)
		rp := Replay{Property: p.ID(), Seed: v.Seed, RunIndex: v.RunIndex, Tier: tier, Class: v.Class, Detail: res.Detail, Scenario: scb,
			Choices: EncodeChoices(res.Choices), TraceHash: res.TraceHash, Log: res.Log, LiftInfo: p.Describe().LiftInfo, Minimised: minimised, OrigSteps: v.Steps}
		os.MkdirAll(filepath.Join(verifDir, "replays"), 0o755)
		path := filepath.Join(verifDir, "replays", fmt.Sprintf("%s-%d-%d.json", p.ID(), seed, v.RunIndex))
		b, _ := json.MarshalIndent(rp, "", " ")
		if err := os.WriteFile(path, b, 0o644); err != nil {
			fmt.Fprintf(os.Stderr, "write replay: %v\n", err)
			return 2
		}
		// verify in a fresh process
		cmd := exec.Command(self, "-replay", path, "-verif", verifDir)
		outb, err := cmd.CombinedOutput()
		if ee, ok := err.(*exec.ExitError); !ok || ee.ExitCode() != 1 {
			fmt.Fprintf(os.Stderr, "INFRASTRUCTURE: minimised replay %s did not reproduce in a fresh process (err=%v):\n%s\n", path, err, outb)
			return 2
		}
		if unlistedPrinted < 8 {
			fmt.Printf("VIOLATION property=%s replay=%s\n", p.ID(), path)
			fmt.Printf("  class=%s run=%d seed=%d: %s\n", v.Class, v.RunIndex, v.Seed, res.Detail)
			unlistedPrinted++
		}
		reported = append(reported, map[string]any{"class": v.Class, "replay": path, "run_index": v.RunIndex, "seed": v.Seed, "detail": res.Detail})
		exit = 1
	}
	for id, n := range tot.KnownCount {
		_ = id
		_ = n
	}

	var extraCov map[string]any
	extraName := ""
	if ex, ok := p.(ExtraPhaser); ok {
		eb := 60.0
		if tier == "thorough" {
			eb = 900
		}
		if v := os.Getenv("VERIF_EXTRA_BUDGET_S"); v != "" {
			if f, err := strconv.ParseFloat(v, 64); err == nil {
				eb = f
			}
		}
		er, err := ex.ExtraPhase(tier, seed, time.Now().Add(time.Duration(eb*float64(time.Second))))
		if err != nil {
			// the second layer is an addition to the claim, not its basis: trouble
			// with it (a program that does not build, a wall-clock time-out on a
			// loaded machine) is recorded, not turned into a failing check
			fmt.Fprintf(os.Stderr, "note: second layer not completed: %v\n", err)
			extraCov, extraName = map[string]any{"not_completed": err.Error()}, "layer_b"
			er = nil
		}
		if er != nil {
			extraCov, extraName = er.Coverage, er.Name
			extraCov["evaluations"] = er.Evaluations
			for _, v := range er.Violations {
				os.MkdirAll(filepath.Join(verifDir, "replays"), 0o755)
				path := filepath.Join(verifDir, "replays", fmt.Sprintf("%s-%d-%s.json", p.ID(), seed, v.Name))
				os.WriteFile(path, v.Replay, 0o644)
				if ids := Classify(known, &Result{Violation: v.Class, Detail: v.Detail, Items: []Item{{Tags: v.Tags, Detail: v.Detail}}}); ids != nil {
					for _, id := range ids {
						if knownHits[id] == 0 {
							fmt.Printf("KNOWN-FINDING: property=%s %s\n", p.ID(), knownByID[id].Line)
						}
						knownHits[id]++
					}
					continue
				}
				fmt.Printf("VIOLATION property=%s replay=%s\n  class=%s: %s\n", p.ID(), path, v.Class, v.Detail)
				reported = append(reported, map[string]any{"class": v.Class, "replay": path, "detail": v.Detail, "layer": er.Name})
				exit = 1
			}
		}
	}
	// every listed finding gets its line, also when this batch's sample did not meet it
	for _, k := range known {
		if knownHits[k.ID] == 0 {
			fmt.Printf("KNOWN-FINDING: property=%s %s [not met by this run's sample]\n", p.ID(), k.Line)
		}
	}
	if len(unrepro) > 0 {
		if exit == 0 {
			fmt.Fprintf(os.Stderr, "INFRASTRUCTURE: worker process(es) crashed in run(s) %v but neither those runs nor the runs before them crash a fresh process, and nothing else was found\n", unrepro)
			return 2
		}
		fmt.Printf("note: worker process(es) also crashed in run(s) %v without the crash repeating in a fresh process (memory damage is not always replayable); the violations above are\n", unrepro)
	}
	// evidence
	d := p.Describe()
	wall := time.Since(start).Seconds()
	faults := map[string]any{}
	for _, k := range d.FaultKinds {
		faults[k] = map[string]int{"fired": tot.Faults[k], "runs_where_fired": tot.FaultRuns[k]}
	}
	for k := range tot.Faults {
		if _, ok := faults[k]; !ok {
			faults[k] = map[string]int{"fired": tot.Faults[k], "runs_where_fired": tot.FaultRuns[k]}
		}
	}
	stuck := []string{}
	for k, v := range tot.Probes {
		if v == 0 {
			stuck = append(stuck, k)
		}
	}
	sort.Strings(stuck)
	samples := tot.Samples
	if len(samples) > 3 {
		samples = samples[:3]
	}
	if samples == nil {
		samples = []json.RawMessage{}
	}
	nViol := 0
	for _, c := range tot.VioCount {
		nViol += c
	}
	unlisted := 0
	for _, r := range reported {
		if _, ok := r["replay"]; ok {
			unlisted++
		}
	}
	cov := map[string]any{
		"evaluations":                        tot.Runs,
		"distinct_nontrivial":                len(hashes),
		"distinct_nontrivial_is_lower_bound": tot.HashCapped,
		"nontrivial_runs":                    tot.Nontrivial,
		"rule":                               d.Rule,
		"samples":                            samples,
		"runs_per_hour":                      int(float64(tot.Runs) / exploreWall * 3600),
		"seeds":                              fmt.Sprintf("run i uses seed RunSeed(VERIF_SEED=%d, i), i in [0,%d)", seed, tot.Runs),
		"sim_steps":                          tot.Steps,
		"sim_time_units":                     tot.SimTime,
		"distinct_end_states":                len(states),
		"faults":                             faults,
		"probes":                             tot.Probes,
		"probes_stuck_at_zero":               stuck,
		"oracle_counters":                    tot.Counters,
		"observations":                       tot.Obs,
		"components":                         d.Components,
		"lifted_sources_sha256":              d.LiftInfo,
		"violation_runs_by_class":            tot.VioCount,
		"violations_examined":                reported,
		"known_finding_runs":                 tot.KnownCount,
		"workers":                            workers,
		"exploration_wall_s":                 exploreWall,
	}
	if extraCov != nil {
		cov[extraName] = extraCov
	}
	ev := map[string]any{
		"property_id": p.ID(), "tier": tier, "seed": int64(seed), "level": "exploration", "coverage": cov,
		"assumptions": d.Assumptions, "wall_s": wall, "violations": unlisted,
	}
	os.MkdirAll(filepath.Join(verifDir, "evidence"), 0o755)
	b, _ := json.MarshalIndent(ev, "", " ")
	if err := os.WriteFile(filepath.Join(verifDir, "evidence", p.ID()+".json"), b, 0o644); err != nil {
		fmt.Fprintf(os.Stderr, "write evidence: %v\n", err)
		return 2
	}
	fmt.Printf("%s %s: %d runs (%d non-trivial, %d distinct interleavings), %d steps, %.1fs; unlisted violations by class: %v; runs matching known findings: %v; exit %d\n",
		p.ID(), tier, tot.Runs, tot.Nontrivial, len(hashes), tot.Steps, wall, tot.VioCount, tot.KnownCount, exit)
	return exit
}

func tail(s string, n int) string {
	if len(s) > n {
		return s[len(s)-n:]
	}
	return s
}

// crashesAgain re-executes one run of a batch in a child process and reports
// whether the Go runtime kills it again.
func crashesAgain(self string, seed uint64, tier string, idx, stride, window int) bool {
	var cmd *exec.Cmd
	if window == 0 {
		cmd = exec.Command(self, "-one", strconv.Itoa(idx), "-tier", tier, "-verif", verifDir)
	} else {
		from := idx - (window-1)*stride
		for from < 0 {
			from += stride
		}
		cmd = exec.Command(self, "-worker", "-tier", tier, "-from", strconv.Itoa(from), "-stride", strconv.Itoa(stride), "-count", strconv.Itoa(idx+1), "-verif", verifDir)
	}
	cmd.Env = append(os.Environ(), "VERIF_SEED="+strconv.FormatUint(seed, 10))
	out, err := cmd.CombinedOutput()
	if err == nil {
		return false
	}
	o := string(out)
	return strings.Contains(o, "fatal error:") || strings.Contains(o, "unexpected signal") || strings.Contains(o, "goroutine ")
}

func doReplay(p Prop, path string) int {
	b, err := os.ReadFile(path)
	if err != nil {
		fmt.Fprintf(os.Stderr, "%v\n", err)
		return 2
	}
	var probe struct {
		Layer string `json:"layer"`
	}
	if json.Unmarshal(b, &probe) == nil && probe.Layer != "" {
		ex, ok := p.(ExtraPhaser)
		if !ok {
			fmt.Fprintf(os.Stderr, "replay file is for layer %q, which this harness does not have\n", probe.Layer)
			return 2
		}
		cls, det, err := ex.ReplayExtra(b)
		if err != nil {
			fmt.Fprintf(os.Stderr, "%v\n", err)
			return 2
		}
		if cls != "" {
			fmt.Printf("VIOLATION property=%s replay=%s\n  class=%s: %s\n", p.ID(), path, cls, det)
			return 1
		}
		fmt.Printf("replay %s: no violation now\n", path)
		return 0
	}
	var rp Replay
	if err := json.Unmarshal(b, &rp); err != nil {
		fmt.Fprintf(os.Stderr, "%v\n", err)
		return 2
	}
	if rp.Class == "process-crash" {
		self, _ := os.Executable()
		if crashesAgain(self, rp.Seed, rp.Tier, rp.RunIndex, rp.CrashStride, rp.CrashWindow) {
			fmt.Printf("VIOLATION property=%s replay=%s\n  class=process-crash: %s\n", p.ID(), path, rp.Detail)
			return 1
		}
		fmt.Printf("replay %s: run %d no longer brings the process down\n", path, rp.RunIndex)
		return 0
	}
	sc, err := p.Decode(rp.Scenario)
	if err != nil {
		fmt.Fprintf(os.Stderr, "%v\n", err)
		return 2
	}
	// stale replay? (the lifted sources changed since the file was written)
	cur := p.Describe().LiftInfo
	stale := false
	if len(rp.LiftInfo) > 0 {
		if len(cur) != len(rp.LiftInfo) {
			stale = true
		} else {
			for i := range cur {
				if cur[i] != rp.LiftInfo[i] {
					stale = true
				}
			}
		}
	}
	ch := sim.ReplayChoices(DecodeChoices(rp.Choices))
	res := p.Run(sc, ch, true)
	for _, l := range res.Log {
		fmt.Println(l)
	}
	same := res.Violation == rp.Class && res.TraceHash == rp.TraceHash && res.Diverged == 0
	if same {
		fmt.Printf("VIOLATION property=%s replay=%s\n  class=%s: %s\n", p.ID(), path, res.Violation, res.Detail)
		return 1
	}
	if stale {
		fmt.Printf("replay %s: sources differ from those the file was recorded against; outcome now: %q (recorded %q)\n", path, res.Violation, rp.Class)
		if res.Violation != "" {
			fmt.Printf("VIOLATION property=%s replay=%s\n  class=%s: %s\n", p.ID(), path, res.Violation, res.Detail)
			return 1
		}
		return 0
	}
	fmt.Fprintf(os.Stderr, "replay %s diverged: class %q (recorded %q), trace hash %x (recorded %x), fallback decisions %d\n", path, res.Violation, rp.Class, res.TraceHash, rp.TraceHash, res.Diverged)
	return 2
}
