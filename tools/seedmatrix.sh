#!/bin/bash
# seedmatrix.sh [name-filter] [property]: run every stored seeded change (of that property) against its property's quick check
# (C13: the four battery histories only, -budget 1).
# Works in a scratch worktree of /repo's HEAD (never touches /repo), through VERIF_REPO.
# Writes one line per change to stdout: name, property, exit status, violation classes.
V=$(cd "$(dirname "$0")/.." && pwd)
WT=$(mktemp -d /tmp/seedmatrix-XXXXXX)
git -C /repo worktree add --detach "$WT" HEAD >/dev/null 2>&1 || { echo "cannot create a worktree"; exit 2; }
trap 'git -C /repo worktree remove --force "$WT" >/dev/null 2>&1' EXIT
for d in "$V"/seeded/*/; do
  name=$(basename "$d")
  case "$name" in *"${1:-}"*) ;; *) continue;; esac
  prop=$(python3 -c "import json,sys; print(json.load(open(sys.argv[1]))['property'])" "$d/meta.json")
  [ -n "${2:-}" ] && [ "$2" != "$prop" ] && [ "${2#!}" = "$2" ] && continue
  [ -n "${2:-}" ] && [ "${2#!}" != "$2" ] && [ "${2#!}" = "$prop" ] && continue
  extra=(); [ "$prop" = C13 ] && extra=(-budget 1)
  p="$d/patch.diff"; [ -f "$d/patch-on-fixed-tree.diff" ] && p="$d/patch-on-fixed-tree.diff"
  git -C "$WT" checkout -q -- . ; git -C "$WT" clean -fdq
  if ! git -C "$WT" apply "$p" 2>/dev/null && ! git -C "$WT" apply -3 "$p" >/dev/null 2>&1; then
    git -C "$WT" checkout -q -- . 2>/dev/null; git -C "$WT" reset -q --hard
    echo "$name $prop patch-does-not-apply-on-HEAD"; continue
  fi
  if [ "$prop" = C13 ]; then
    # the battery histories one at a time (0: one module, 1: the shared leaf in a replaced module)
    out=$(VERIF_REPO="$WT" "$V/vcheck" C13 --tier quick -one 0 -detlog 2>&1 | grep '^run 0 ')
    case "$out" in *'violation ""'*) out="$out
$(VERIF_REPO="$WT" "$V/vcheck" C13 --tier quick -one 1 -detlog 2>&1 | grep '^run 1 ')";; esac
    classes=$(echo "$out" | grep -o 'violation "[a-z0-9-]*"' | grep -v '""' | sed 's/violation "/class=/;s/"$//' | sort | uniq -c | awk '{printf "%s(%s) ", $2, $1}')
    rc=0; [ -n "$classes" ] && rc=1
  else
  out=$(VERIF_REPO="$WT" "$V/vcheck" "$prop" --tier quick "${extra[@]}" 2>&1); rc=$?
  classes=$(echo "$out" | grep -o "class=[a-z0-9-]*" | sort | uniq -c | sort -rn | awk '{printf "%s(%s) ", $2, $1}')
  fi
  echo "$name $prop exit=$rc ${classes:-none}"
  git -C "$WT" reset -q --hard
done
