#!/bin/bash
# tryseed.sh <ID> <patch.diff> [vcheck args...]: apply a seeded change to /repo, run the check, undo the change.
ID=$1; P=$(readlink -f "$2"); shift 2
cd /repo || exit 2
git diff --quiet || { echo "/repo has local changes"; exit 2; }
git apply "$P" || { echo "patch does not apply"; exit 2; }
/verif/vcheck "$ID" "$@" 2>&1 | grep -v "^KNOWN-FINDING" | tail -6
rc=${PIPESTATUS[0]}
git -C /repo checkout -- . ; git -C /repo status --short | head -3
echo "exit=$rc"
