#!/bin/bash
# tryseed.sh <patch.diff> <PROPERTY> [worktree] [extra vcheck args...]: apply a change to a scratch worktree of /repo's HEAD
# (created if missing, never /repo itself), run the property's quick check against it through VERIF_REPO, print
# exit status and violation classes, reset the worktree.
V=$(cd "$(dirname "$0")/.." && pwd)
P=$(readlink -f "${1:?patch}"); ID=${2:?property}; WT=${3:-/tmp/wt-try-$ID}; shift 2; [ $# -gt 0 ] && shift
[ -d "$WT" ] || git -C /repo worktree add --detach "$WT" HEAD >/dev/null 2>&1 || { echo "cannot create worktree $WT"; exit 2; }
git -C "$WT" reset -q --hard; git -C "$WT" clean -fdq
git -C "$WT" apply "$P" 2>/dev/null || git -C "$WT" apply -3 "$P" >/dev/null 2>&1 || { echo "patch does not apply"; exit 2; }
out=$(VERIF_REPO="$WT" "$V/vcheck" "$ID" --tier quick "$@" 2>&1); rc=$?
classes=$(echo "$out" | grep -o "class=[a-z0-9-]*" | sort | uniq -c | sort -rn | awk '{printf "%s(%s) ", $2, $1}')
echo "$(basename "$(dirname "$P")") $ID exit=$rc ${classes:-none}"
[ $rc = 2 ] && echo "$out" | tail -15
[ -n "${TRYSEED_LOG:-}" ] && echo "$out" > "$TRYSEED_LOG"
git -C "$WT" reset -q --hard; git -C "$WT" clean -fdq
exit 0
