#!/bin/bash
# Determinism self-test: for N run indices, execute the run in separate
# processes under GOMAXPROCS 1, 4 and 16 (twice each) and compare the complete
# event logs byte for byte.  usage: tools/dettest.sh <ID> [N] [seed]
ID=${1:?}; N=${2:-40}; SEED=${3:-7}
VERIF=$(cd "$(dirname "$0")/.." && pwd)
D=$(mktemp -d /var/tmp/verif-det-XXXXXX)
trap 'rm -rf "$D"' EXIT
BIN=$D/harness
VERIF_KEEP_BIN=$BIN VERIF_BUILD_ONLY=1 "$VERIF/vcheck" "$ID" || exit 2
bad=0; lines=0
for i in $(seq 0 $((N-1))); do
  ref=""
  for gmp in 1 4 16 1 4 16; do
    VERIF_SEED=$SEED GOMAXPROCS=$gmp "$BIN" -one $i -detlog -tier ${TIER:-quick} -verif "$VERIF" > $D/out 2>&1 || { echo "run failed"; head -5 $D/out; exit 2; }
    [ -s $D/out ] || { echo "empty log"; exit 2; }
    lines=$((lines + $(wc -l < $D/out)))
    h=$(sha256sum < $D/out | cut -c1-16)
    if [ -z "$ref" ]; then ref=$h; elif [ "$h" != "$ref" ]; then echo "NONDETERMINISTIC: $ID run $i seed $SEED GOMAXPROCS=$gmp: $h != $ref"; bad=1; fi
  done
done
[ $bad = 0 ] && echo "dettest $ID: $N runs x 6 processes (GOMAXPROCS 1/4/16, twice): all event logs identical ($lines log lines compared)"
exit $bad
