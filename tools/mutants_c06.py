ID='C06'
FILE='runtime/internal/runtime/map.go'
ST='runtime/internal/runtime/stubs.go'
ZM='runtime/internal/runtime/z_map.go'
AL='runtime/internal/runtime/alg.go'
AB='ssa/abi/map.go'
MUTANTS=[
 ('revert-memclr', 'c.Memset(ptr, 0, n)', '', 0, ST),
 ('delete-no-growwork', 'if h.growing() {\n\t\tgrowWork(t, h, bucket)\n\t}\n\tb := (*bmap)(add(h.buckets, bucket*uintptr(t.BucketSize)))\n\tbOrig := b', 'b := (*bmap)(add(h.buckets, bucket*uintptr(t.BucketSize)))\n\tbOrig := b'),
 ('overload-factor', 'return count > bucketCnt && uintptr(count) > loadFactorNum*(bucketShift(B)/loadFactorDen)', 'return count > bucketCnt && uintptr(count) > 2*loadFactorNum*(bucketShift(B)/loadFactorDen)'),
 ('assign-no-count', '\th.count++\n\ndone:', '\ndone:'),
 ('delete-no-count', '\t\t\th.count--\n', '\t\t\t\n'),
 ('iter-skip-checkbucket', 'if checkBucket != noCheck && !h.sameSizeGrow() {', 'if false && checkBucket != noCheck && !h.sameSizeGrow() {'),
 ('evacuate-wrong-half', 'if hash&newbit != 0 {\n\t\t\t\t\t\tuseY = 1', 'if hash&newbit == 0 {\n\t\t\t\t\t\tuseY = 1'),
 ('tophash-min', 'if top < minTopHash {\n\t\ttop += minTopHash\n\t}\n\treturn top', 'return top'),
 ('f64hash-no-zero-case', 'case f == 0:\n\t\treturn c1 * (c0 ^ h) // +0, -0', 'case false:\n\t\treturn c1 * (c0 ^ h) // +0, -0', 1, AL),
 ('strhash-len-only', 'return memhashFallback(x.data, h, uintptr(x.len))', 'return memhashFallback(x.data, h, 0)', 0, AL),
 ('mapiternext-ready-dropped', 'if !it.ready {\n\t\tmapiternext(&it.hiter)\n\t\tit.ready = true\n\t}', 'mapiternext(&it.hiter)\n\tit.ready = true', 0, ZM),
 ('reflexive-flag', 'if IsReflexive(t.Key()) {\n\t\tflags |= 4', 'if true {\n\t\tflags |= 4', 0, AB),
 ('needkeyupdate-flag', 'if needkeyupdate(t.Key()) {\n\t\tflags |= 8', 'if false {\n\t\tflags |= 8', 0, AB),
 ('hashmightpanic-flag', 'if hashMightPanic(t.Key()) {\n\t\tflags |= 16', 'if false {\n\t\tflags |= 16', 0, AB),
 ('indirect-threshold', 'if sizes.Sizeof(t.Elem()) > MAXELEMSIZE {\n\t\tflags |= 2', 'if sizes.Sizeof(t.Elem()) > 2*MAXELEMSIZE {\n\t\tflags |= 2', 0, AB),
 ('nilmap-assign-no-panic', 'panic(plainError("assignment to entry in nil map"))', 'return nil'),
 ('samesize-grow-never', 'if !overLoadFactor(h.count+1, h.B) {\n\t\tbigger = 0\n\t\th.flags |= sameSizeGrow\n\t}', 'if !overLoadFactor(h.count+1, h.B) {\n\t\tbigger = 0\n\t}'),
 ('access-old-bucket-skip', 'if !evacuated(oldb) {\n\t\t\tb = oldb\n\t\t}\n\t}\n\ttop := tophash(hash)\nbucketloop:\n\tfor ; b != nil; b = b.overflow(t) {\n\t\tfor i := uintptr(0); i < bucketCnt; i++ {\n\t\t\tif b.tophash[i] != top {\n\t\t\t\tif b.tophash[i] == emptyRest {\n\t\t\t\t\tbreak bucketloop\n\t\t\t\t}\n\t\t\t\tcontinue\n\t\t\t}\n\t\t\tk := add(unsafe.Pointer(b), dataOffset+i*uintptr(t.KeySize))\n\t\t\tif t.IndirectKey() {\n\t\t\t\tk = *((*unsafe.Pointer)(k))\n\t\t\t}\n\t\t\tif t.Key.Equal(key, k) {\n\t\t\t\te := add(unsafe.Pointer(b), dataOffset+bucketCnt*uintptr(t.KeySize)+i*uintptr(t.ValueSize))\n\t\t\t\tif t.IndirectElem() {\n\t\t\t\t\te = *((*unsafe.Pointer)(e))\n\t\t\t\t}\n\t\t\t\treturn e, true', 'if false && !evacuated(oldb) {\n\t\t\tb = oldb\n\t\t}\n\t}\n\ttop := tophash(hash)\nbucketloop:\n\tfor ; b != nil; b = b.overflow(t) {\n\t\tfor i := uintptr(0); i < bucketCnt; i++ {\n\t\t\tif b.tophash[i] != top {\n\t\t\t\tif b.tophash[i] == emptyRest {\n\t\t\t\t\tbreak bucketloop\n\t\t\t\t}\n\t\t\t\tcontinue\n\t\t\t}\n\t\t\tk := add(unsafe.Pointer(b), dataOffset+i*uintptr(t.KeySize))\n\t\t\tif t.IndirectKey() {\n\t\t\t\tk = *((*unsafe.Pointer)(k))\n\t\t\t}\n\t\t\tif t.Key.Equal(key, k) {\n\t\t\t\te := add(unsafe.Pointer(b), dataOffset+bucketCnt*uintptr(t.KeySize)+i*uintptr(t.ValueSize))\n\t\t\t\tif t.IndirectElem() {\n\t\t\t\t\te = *((*unsafe.Pointer)(e))\n\t\t\t\t}\n\t\t\t\treturn e, true'),
 ('emptyrest-propagation-off', 'b.tophash[i] = emptyRest\n\t\t\t\tif i == 0 {', 'b.tophash[i] = emptyOne\n\t\t\t\tif i == 0 {'),
 # revert of F25 (itab table: look-up and insertion as two critical sections again)
 ('revert-newitab-one-critical-section', '\tif i := findItab(inter, typ); i != nil {\n\t\treturn i\n\t}\n', '\tif i := findItab(inter, typ); i != nil {\n\t\treturn i\n\t}\n\titabTable.Unlock()\n\titabTable.Lock()\n', 0, 'runtime/internal/runtime/z_face.go'),
]
