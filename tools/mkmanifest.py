#!/usr/bin/env python3
"""Regenerates /verif/MANIFEST.json from the tables below (single source of truth)."""
import json, os
V = '/verif'
na = {
"C01":"compiled program = Go semantics is a deterministic function of (program, -O level, package split); no schedule, clock, fault or interleaving for a simulator to own",
"C02":"numeric operators and conversions are pure functions of operand values",
"C03":"mandated run-time panics are a deterministic function of operands and statement position (synchronous, per goroutine); no schedule or fault in the statement",
"C04":"defer/panic/recover/Goexit is per-goroutine deterministic control flow; no inter-thread ordering involved",
"C05":"slice and string operations are pure functions of their arguments (aliasing is an input, not an interleaving)",
"C07":"type identity / interface satisfaction is a pure function of pairs of types",
"C08":"size/align/offset agreement is a pure function of a type and a target",
"C09":"C ABI lowering is a pure function of signature and argument values",
"C12":"package initialisation order is a deterministic function of the import graph, single-threaded by definition",
"C14":"link-name uniqueness is a pure function of the set of entities",
"C15":"reflect/fmt results are pure functions of value and verb",
"C16":"go:embed resolution is a pure function of a static directory tree and pattern list",
"C17":"command-line quoting/splitting round trips are pure functions of strings",
"C18":"target resolution is a pure function of JSON files; its map-iteration-order clause concerns Go's own runtime randomisation, which cannot be put behind a seam",
"C19":"Go/Python marshalling is a pure function of the values exchanged; the import-once guard is decided at compile time, single-threaded",
}
pending = {
"C06":"claimed in DESIGN.md §4.3; check under construction (not yet registered)",
"C11":"claimed in DESIGN.md §4.2; check under construction (not yet registered)",
"C13":"claimed in DESIGN.md §4.5; check under construction (not yet registered)",
"C20":"claimed in DESIGN.md §4.4; check under construction (not yet registered)",
}
checks = {
"C10": dict(
  technique="deterministic simulation with fault injection: the real z_chan.go on a simulated pthread layer, seeded schedule search (uniform / PCT / run-to-block / starvation) with spurious wake-ups, history oracles (conservation, rendezvous matching, porcupine linearizability, quiescence deadlock detection, bounded liveness), minimised replayable traces",
  level=dict(category="exploration", design_ref="DESIGN.md §4.1",
    text="seeded search over schedules and spurious wake-ups of generated 2-8 task channel/select workloads against the lifted channel runtime; millions of runs per minute, every run checked by history oracles derived from the property statement; a clean batch is evidence over the sampled schedules, not a proof"),
  note="trusted: the simulator's pthread semantics (mutex, cond with arbitrary signal target and spurious wake-ups), the Go compiler compiling the lifted source like llgo does, atomicity of plain memory accesses between sim points; the compiler lowering in ssa/datastruct.go is exercised only by the second phase (layer B: generated programs compiled by the real llgo and run under an LD_PRELOAD deterministic pthread scheduler, same oracles). Four unrepaired genuine defects of one family (the channel has no queue of waiting operations: select-vs-select rendezvous C10-K1/K2, select-with-default not seeing a peer that waits in a select C10-K3 or queued behind another hand-off C10-K4; see known_findings.json) are matched structurally and printed as KNOWN-FINDING."),
"C11": dict(
  technique="deterministic simulation with fault injection: llgo's real sema_llgo.go and atomic.Value plus the unmodified std sync sources of three GOROOTs on simulated pthread objects, simulated atomics and clock; seeded schedule search with spurious wake-ups, arbitrary signal targets and clock jumps; counting oracles and porcupine linearizability against small sequential models (notify list, WaitGroup counter, register); second phase: programs compiled by the real llgo under an LD_PRELOAD deterministic pthread scheduler with simulated thread resources (limit on threads neither finished-and-detached nor joined) and injected pthread_create failures",
  level=dict(category="exploration", design_ref="DESIGN.md §4.2",
    text="seeded search over schedules/faults of generated 2-8 task workloads per primitive (raw semaphore, notify list, Mutex, RWMutex, WaitGroup, Once, Cond, atomic.Value); every run checked for mutual exclusion, admission after release (no lost wake-up at quiescence), Wait-only-after-notify, Wait-only-at-zero, once-exactly-once, register linearizability, bounded liveness in a fair fault-free phase"),
  note="trusted: simulated pthread semantics; sequentially consistent stub atomics (the property's clause on hardware indivisibility / total order of sync/atomic operations is NOT decided here and cannot be by this technique); the go-statement clause is decided only by the second phase (layer B: templated programs compiled by the real llgo under the LD_PRELOAD deterministic pthread scheduler); std Go compiler compiles the lifted sources like llgo."),
"C20": dict(
  technique="deterministic simulation with fault injection: the real fetch.go on a simulated OS seam (real files in a private sandbox behind intercepted, confinement-checked system calls; simulated flock, HTTP transport and process crashes), seeded schedules of 1-4 concurrent requesting processes, generated hostile/odd/benign archives in three formats, network/disk/crash fault plans; oracles: confinement at the seam and by post-run sweep, content equality, atomic publication at every step, rejection of escaping entries, nothing left by a killed earlier request inside the published tree, bounded liveness in fault-free runs",
  level=dict(category="exploration", design_ref="DESIGN.md §4.4",
    text="seeded search over (archive, schedule, fault plan): every file-system call of the real extraction/locking code is a scheduling point checked against the destination's own tree before it takes effect; the destination is verified complete at the step it becomes visible; sampling, not proof"),
  note="trusted: simulated flock (inode-keyed, dropped on crash), simulated HTTP, real kernel file semantics under /dev/shm, GNU tar as one atomic step; power loss not modelled; for .tar.xz only confinement (not rejection-with-error) is asserted because GNU tar neutralises hostile names instead of failing."),
"C06": dict(
  technique="deterministic simulation: the real map runtime (map.go, alg.go, hash64.go, z_map.go) with type descriptors computed by the real ssa/abi package, every random draw of the map code (hash seed, iteration start bucket/offset, NaN hashing) owned and recorded by the simulator, steps of up to three live range loops interleaved with mutations, a buggified degenerate hasher; reference model = association list checked operation by operation, iterator oracles from the Go spec; second phase: a generated map interpreter compiled by the real llgo (at -O0) for 54 concrete map types, C rand() behind an LD_PRELOAD seam seeded per history, same model over its printed events; third phase: a compiled program in which goroutines convert equal values to interface types for the first time concurrently and use them as map keys, under the LD_PRELOAD deterministic pthread scheduler (seeded schedules at lock granularity)",
  level=dict(category="exploration", design_ref="DESIGN.md §4.3",
    text="seeded search over operation histories (5-6000 ops) x key/elem type catalogue x RNG-seam values x iterator interleavings against a trivial reference map; lookups, len, iteration completeness/no-duplicate/no-deleted, nil-map and unhashable-key panics, bounded progress of every operation"),
  note="weakest fit of the claimed properties (no faults, single thread): what is simulated is the randomness the code draws and the interleaving of range loops with mutations. Layer A scope: run-time library + descriptor computation (ssa/abi), with the assembly of descriptors into LLVM constants (ssa/abitype.go) re-implemented in the harness; the compiler lowering of map operations and the emitted descriptors are exercised by layer B (compiled interpreter, ~80 histories/s), whose generator stays outside the territory of the listed findings. Three unrepaired inherited defects (C06-K1..K3) are matched structurally in layer A, one (C06-K4, keys that are arrays of structs ending in a zero-size field) by key kind in layer B."),
"C13": dict(
  technique="deterministic simulation with fault injection at process level: the real llgo binary (rebuilt from the working tree, cache code behind a counting fault seam supplied by go build -overlay) driven through generated histories of edits / rebuilds / cache clears / builds killed or failed at cache operation k (optionally with a torn write) / 2-3 concurrent llgo processes on the one cache directory (possibly under different tag settings or optimisation levels), parked at every cache operation and released one at a time by the run's PRNG or kept level on the package list (with kills, torn writes and disk errors ordered at those gates) / a power cut after a build (files renamed without having been synced lose their data), with file mtimes stamped from a simulated clock (normal, stalled, backwards, coarse); oracle = a reference model of what the generated multi-package program must print",
  level=dict(category="exploration", design_ref="DESIGN.md §4.5",
    text="seeded search over edit/rebuild/crash histories x clock-fault modes on generated 2-6 package modules (Go source same/different size, LLGoFiles C files, embedded files, build tags, ABI mode, optimisation level, LLGO_TRACE, transitive dependencies), including steps in which 2-3 builder processes share the cache; after every successful build the program's output must equal the model's, also after crashes and disk errors at arbitrary cache operations; roughly 700 histories per hour, so a clean batch is thin evidence"),
  note="claims the never-stale and crash-consistency clauses; byte-reproducibility of IR is sampled only (a repro step compares the .ll files of two compiler processes; their difference, Go's per-process map-iteration seed, cannot be put behind a seam, so this part is observation, not simulation, and its replay re-executes the comparison); -X overrides have no command-line path at this commit; of the environment variables only LLGO_TRACE changes program behaviour and is a history step, the optimisation level is observable through the C side files (__OPTIMIZE__: -O2 / -O0 / -Oz are history steps), the debug variables are not observable by this oracle. Concurrent builders are interleaved at cache-operation granularity only (not inside one write), and no edit happens while a build runs. LLVM 14 + stub libunwind/libuv instead of LLVM 19; embed worlds only in the thorough tier (cold std build takes minutes)."),
}
for k in list(pending):
    if k in checks: del pending[k]
base = json.load(open('/root/.vp/BASELINE.json'))['cmd']
m = {"version":1,
 "setup_cmd":"./setup.sh",
 "hooks":{"guard":"verif","enable":"no hooks are committed to /repo: checks lift the anchored sources from the working tree into a scratch directory (imports retargeted to simulated seams) or use go build -overlay; the build tag 'verif' is carried only by overlay-supplied files",
          "baseline_off_cmd":base,"source_commits":[],"add_only":True},
 "engines":[{"name":"detsim","path":"/verif/sim","serves_properties":sorted(checks),"kind_free_text":"deterministic simulation kernel (seeded scheduler, simulated pthread objects, clock, fault injection, replay, minimiser) + source lifter"}],
 "checks":[],
 "notes":"See DESIGN.md. Technique: deterministic simulation with fault injection. ./vcheck <ID> --tier quick|thorough; --replay <file> replays a violation. Env VERIF_SEED seeds a batch.",
 "not_applicable":[{"property_id":k,"reason":v} for k,v in sorted({**na,**pending}.items())]}
for pid,c in sorted(checks.items()):
    m["checks"].append({"property_id":pid,
      "quick_cmd":f"./vcheck {pid} --tier quick","thorough_cmd":f"./vcheck {pid} --tier thorough",
      "evidence_file":f"/verif/evidence/{pid}.json","replay_cmd_template":f"./vcheck {pid} --replay {{path}}",
      "engine":"detsim","level_claimed":c["level"],"level_note":c["note"],"technique":c["technique"]})
json.dump(m,open(os.path.join(V,'MANIFEST.json'),'w'),indent=1)
print("checks:",[c["property_id"] for c in m["checks"]],"n/a:",len(m["not_applicable"]))
