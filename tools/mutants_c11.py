ID='C11'
FILE='runtime/internal/lib/runtime/sema_llgo.go'
V='runtime/internal/lib/sync/atomic/value.go'
ZT='runtime/internal/runtime/z_thread.go'
MUTANTS=[
 ('notify-compare-not-wrap-safe', 'for int32(latomic.LoadUint32(&l.notify)-t) <= 0 {', 'for latomic.LoadUint32(&l.notify) <= t {'),
 ('revert-sema-retry', '\t\t\t\t// Lost the race for one token; others may be left and\n\t\t\t\t// nobody will signal for them.\n\t\t\t\tcontinue\n', ''),
 ('revert-notify-cond', 'for int32(latomic.LoadUint32(&l.notify)-t) <= 0 {', 'for latomic.LoadUint32(&l.notify) == t {'),
 ('notifyone-signal', 'st.cond.Broadcast()\n\t}\n\tst.mu.Unlock()\n}\n\n//go:linkname sync_runtime_notifyListCheck', 'st.cond.Signal()\n\t}\n\tst.mu.Unlock()\n}\n\n//go:linkname sync_runtime_notifyListCheck'),
 ('release-skip-signal-one-waiter', 'if st.waiters != 0 {\n\t\tst.cond.Signal()', 'if st.waiters > 1 {\n\t\tst.cond.Signal()'),
 ('release-signal-before-add', 'latomic.AddUint32(addr, 1)\n\tst := getSemaState(addr)\n\tst.mu.Lock()\n\tif st.waiters != 0 {\n\t\tst.cond.Signal()\n\t}\n\tst.mu.Unlock()', 'st := getSemaState(addr)\n\tst.mu.Lock()\n\tif st.waiters != 0 {\n\t\tst.cond.Signal()\n\t}\n\tst.mu.Unlock()\n\tlatomic.AddUint32(addr, 1)'),
 ('acquire-no-lock-recheck', 'st.mu.Lock()\n\t\tfor {\n\t\t\tv = latomic.LoadUint32(addr)\n\t\t\tif v != 0 {', 'st.mu.Lock()\n\t\tfor {\n\t\t\tv = 0\n\t\t\tif v != 0 {'),
 ('acquire-cas-to-store', 'if v != 0 && latomic.CompareAndSwapUint32(addr, v, v-1) {\n\t\t\treturn\n\t\t}', 'if v != 0 {\n\t\t\tlatomic.StoreUint32(addr, v-1)\n\t\t\treturn\n\t\t}'),
 ('notifyall-no-broadcast', 'latomic.StoreUint32(&l.notify, latomic.LoadUint32(&l.wait))\n\tst.cond.Broadcast()', 'latomic.StoreUint32(&l.notify, latomic.LoadUint32(&l.wait))\n\tst.cond.Signal()'),
 ('notifyone-unconditional', 'if latomic.LoadUint32(&l.notify) != latomic.LoadUint32(&l.wait) {\n\t\tlatomic.AddUint32(&l.notify, 1)', 'if true {\n\t\tlatomic.AddUint32(&l.notify, 1)'),
 ('sema-shared-state', 'key := uintptr(unsafe.Pointer(addr))\n\tsemaMu.Lock()', 'key := uintptr(unsafe.Pointer(addr)) &^ 7\n\tsemaMu.Lock()'),
 ('wait-no-lock', 'st.mu.Lock()\n\t// Ticket t', '// Ticket t'),
 ('value-store-order', 'StorePointer(&vp.data, vlp.data)\n\t\t\tStorePointer(&vp.typ, vlp.typ)\n\t\t\treturn\n', 'StorePointer(&vp.typ, vlp.typ)\n\t\t\tStorePointer(&vp.data, vlp.data)\n\t\t\treturn\n', 0, V),
 ('value-load-no-inprogress-check', 'if typ == nil || typ == unsafe.Pointer(&firstStoreInProgress) {', 'if typ == nil {', 0, V),
 ('value-cas-plain-store', 'return CompareAndSwapPointer(&vp.data, data, np.data)', 'StorePointer(&vp.data, np.data)\n\t\treturn true', 0, V),
 ('value-swap-not-atomic', 'op.typ, op.data = np.typ, SwapPointer(&vp.data, np.data)', 'op.typ, op.data = np.typ, LoadPointer(&vp.data)\n\t\tStorePointer(&vp.data, np.data)', 0, V),
 # F12 reverted in two halves (layer B only: run with ARGS --tier quick)
 ('revert-thread-detach', '\tpthread.Detach(*th)\n', '', 0, ZT),
 ('revert-create-failure-fatal', '\t\tfatal("failed to create new OS thread")\n\t\tc.Exit(2)\n', '', 0, ZT),
]
