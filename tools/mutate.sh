#!/bin/bash
# Sensitivity helper: apply a sed-style one-line mutation to a file in /repo,
# run a check, restore the file.  usage: tools/mutate.sh <ID> <file> <python-expr old> <new> [budget]
# Never leaves /repo modified.
ID=$1; F=$2; OLD=$3; NEW=$4; B=${5:-15}
cd /repo || exit 2
git diff --quiet -- "$F" || { echo "file has local changes"; exit 2; }
python3 - "$F" "$OLD" "$NEW" <<'PY' || { git checkout -- "$F"; exit 2; }
import sys
p,old,new=sys.argv[1:4]
s=open(p).read()
n=s.count(old)
if n<1: print("pattern not found"); sys.exit(1)
idx=int(__import__('os').environ.get('MUT_NTH','0'))
pos=-1
for _ in range(idx+1):
    pos=s.find(old,pos+1)
    if pos<0: print("occurrence not found"); sys.exit(1)
s=s[:pos]+new+s[pos+len(old):]
open(p,'w').write(s)
PY
(cd runtime 2>/dev/null && GOFLAGS=-mod=mod GOPROXY=off go build ./internal/... >/dev/null 2>&1)
/verif/vcheck $ID -budget $B 2>&1 | grep -v "^  class" | tail -4
echo "exit=${PIPESTATUS[0]}"
git checkout -- "$F"
