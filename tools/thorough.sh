#!/bin/bash
# thorough.sh <seed> <ID>...: thorough tier of the given properties, one after the other
S=$1; shift
cd "$(dirname "$0")/.."
for id in "$@"; do
  out=$(VERIF_SEED=$S ./vcheck $id --tier thorough 2>&1); rc=$?
  echo "seed=$S $id exit=$rc $(echo "$out" | grep -c '^VIOLATION') violations; $(echo "$out" | grep -v KNOWN-FINDING | tail -1 | cut -c1-300)"
  echo "$out" | grep -A1 '^VIOLATION' | head -8
done
