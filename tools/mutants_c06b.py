# compiler-side mutants: only the compiled map interpreter (layer B) can see them
ID='C06'
FILE='ssa/datastruct.go'
AT='ssa/abitype.go'
EX='ssa/expr.go'
ARGS=['--tier','quick']
MUTANTS=[
 ('lookup-commaok-always-true', 'ok := b.impl.CreateExtractValue(vals.impl, 1, "")\n\t\tt := prog.Struct(vtyp, prog.Bool())', 'ok := prog.BoolVal(true).impl\n\t\tt := prog.Struct(vtyp, prog.Bool())'),
 ('descriptor-keysize-not-slot-size', 'if keySize > abi.MAXKEYSIZE {\n\t\t\tkeySize = prog.abi.Size(types.Typ[types.UnsafePointer])\n\t\t}', '', 0, AT),
 ('descriptor-elemsize-not-slot-size', 'if elemSize > abi.MAXELEMSIZE {\n\t\t\telemSize = prog.abi.Size(types.Typ[types.UnsafePointer])\n\t\t}', '', 0, AT),
 ('hasher-env-is-elem-type', 'env := b.abiType(t.Key())', 'env := b.abiType(t.Elem())', 0, AT),
 ('next-value-loaded-from-key-slot', 'llvm.CreateLoad(b.impl, vtyp.ll, v))', 'llvm.CreateLoad(b.impl, vtyp.ll, k))'),
 ('clear-map-is-noop', 'b.Call(b.Pkg.rtFunc("MapClear"), t, m)\n\t\t\t\treturn', 'return', 0, EX),
]
