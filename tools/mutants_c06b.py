# compiler-side mutants: only the compiled map interpreter (layer B) can see them
ID='C06'
FILE='ssa/datastruct.go'
AT='ssa/abitype.go'
EX='ssa/expr.go'
ARGS=['--tier','quick']
MUTANTS=[
 ('lookup-commaok-always-true', 'ok := b.impl.CreateExtractValue(vals.impl, 1, "")\n\t\tt := prog.Struct(vtyp, prog.Bool())', 'ok := prog.BoolVal(true).impl\n\t\tt := prog.Struct(vtyp, prog.Bool())'),
 ('descriptor-keysize-not-slot-size', 'if keySize > abi.MAXKEYSIZE {\n\t\t\tkeySize = prog.abi.Size(types.Typ[types.UnsafePointer])\n\t\t}', '', 0, AT),
 ('descriptor-elemsize-not-slot-size', 'if elemSize > abi.MAXELEMSIZE {\n\t\t\telemSize = prog.abi.Size(types.Typ[types.UnsafePointer])\n\t\t}', '', 0, AT),
 ('hasher-env-is-elem-type', 'env := b.abiType(t.Key())', 'env := b.abiType(t.Elem())', 0, AT),
 ('next-value-loaded-from-key-slot', 'llvm.CreateLoad(b.impl, vtyp.ll, v))', 'llvm.CreateLoad(b.impl, vtyp.ll, k))'),
 ('clear-map-is-noop', 'b.Call(b.Pkg.rtFunc("MapClear"), t, m)\n\t\t\t\treturn', 'return', 0, EX),
 # reverts of F14, F15, F16 (layer B)
 ('revert-func-elem-whole-slot', 'memmove(dst.e, e, uintptr(t.ValueSize))', 'typedmemmove(t.Elem, dst.e, e)', 0, 'runtime/internal/runtime/map.go'),
 ('revert-fat-zero-value', 'if !ok && t.Elem.Size_ > maxZero {', 'if false {', 0, 'runtime/internal/runtime/z_map.go'),
 ('revert-struct-tags-in-type-identity', 'fmt.Fprintln(h, name, ft, strconv.Quote(t.Tag(i)))', 'fmt.Fprintln(h, name, ft)', 0, 'ssa/abi/abi.go'),
]
