# reverts of the cache-key repairs and the two sort sites behind reproducible IR; run with ARGS --tier quick (C13 needs its batteries)
ID='C13'
FILE='internal/build/collect.go'
ARGS=['--tier','quick']
MUTANTS=[
 ('revert-expanded-specs', '\tm.pkg.ExpandedSpecs = pkgExpandedSpecs(p)\n', ''),
 ('revert-llgofiles-in-fingerprint', '\totherFiles = append(otherFiles, pkgLLGoFiles(p)...)\n', ''),
 ('trace-not-in-key', '\t\tllgoTrace,\n', ''),
 ('members-unsorted', 'sort.Slice(members, func(i, j int) bool {\n\t\treturn members[i].name < members[j].name\n\t})', '_ = sort.Slice', 0, 'cl/compile.go'),
]
