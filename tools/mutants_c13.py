# reverts of the cache-key repairs and the two sort sites behind reproducible IR; run with ARGS --tier quick (C13 needs its batteries)
ID='C13'
FILE='internal/build/collect.go'
ARGS=['--tier','quick']
MUTANTS=[
 ('revert-expanded-specs', '\tm.pkg.ExpandedSpecs = pkgExpandedSpecs(p)\n', ''),
 ('revert-llgofiles-in-fingerprint', '\totherFiles = append(otherFiles, pkgLLGoFiles(p)...)\n', ''),
 ('trace-not-in-key', '\t\tllgoTrace,\n', ''),
 ('members-unsorted', 'sort.Slice(members, func(i, j int) bool {\n\t\treturn members[i].name < members[j].name\n\t})', '_ = sort.Slice', 0, 'cl/compile.go'),
 ('revert-cflags-in-key', '\t\t"CCFLAGS",\n\t\t"CFLAGS",\n', ''),
 ('opt-level-flags-not-in-key', '\tif len(c.crossCompile.CCFLAGS) > 0 {\n', '\tif false {\n'),
 ('revert-sibling-files-digested', '\t\t\tif sibling := filepath.Join(cDir, e.Name()); e.Type().IsRegular() && !seen[sibling] {', '\t\t\tif sibling := filepath.Join(cDir, e.Name()); false && !seen[sibling] {'),
 ('revert-subdirectory-headers-digested', '\t\tif e.IsDir() {\n\t\t\tfiles = appendIncludable(files, seen, path, false)\n\t\t} else if', '\t\tif e.IsDir() {\n\t\t} else if'),
 # reverts of F27 (one of its three sites) and F28
 ('revert-archive-copy-synced', '\tif err := tmp.Sync(); err != nil {\n\t\treturn err\n\t}\n', ''),
 ('revert-c-object-own-name', '\tobjTmp, err := os.CreateTemp("", filepath.Base(baseName)+"-*.o")\n\tcheck(err)\n\tobjFile := objTmp.Name()\n\tobjTmp.Close()\n', '\tvar err error\n\tobjFile := baseName + ".o"\n', 0, 'internal/build/build.go'),
]
