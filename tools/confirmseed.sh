#!/bin/bash
# confirmseed.sh <seed-dir> <worktree>: run the seed's demonstration (demo/run.sh <worktree>) on the clean worktree
# (must pass) and with patch.diff applied (must fail); prints both results; leaves the worktree clean.
D=$(readlink -f "${1:?seed dir}"); WT=${2:?worktree}
git -C "$WT" reset -q --hard; git -C "$WT" clean -fdq
echo "--- unchanged:"; bash "$D/demo/run.sh" "$WT" 2>&1 | tail -${TAILN:-6}; rc0=${PIPESTATUS[0]}
git -C "$WT" apply "$D/patch.diff" 2>/dev/null || git -C "$WT" apply -3 "$D/patch.diff" >/dev/null 2>&1 || { echo "patch does not apply"; exit 2; }
git -C "$WT" diff > "$D/patch-on-head.diff"
echo "--- with the change:"; bash "$D/demo/run.sh" "$WT" 2>&1 | tail -${TAILN:-6}; rc1=${PIPESTATUS[0]}
git -C "$WT" reset -q --hard; git -C "$WT" clean -fdq
echo "=== $(basename "$D"): unchanged rc=$rc0, changed rc=$rc1"
