#!/usr/bin/env python3
"""storeseed.py <src-dir> <name> <property> <needs> <caught_by> [what_was_run]: keep a confirmed seeded change under seeded/<name>/"""
import sys, os, shutil, json
src, name, prop, needs, caught = sys.argv[1:6]
ran = sys.argv[6] if len(sys.argv) > 6 else "demonstration run by me with confirmseed.sh in a scratch worktree of /repo's HEAD: passes unchanged, fails with patch.diff; the property's quick check run against the scratch worktree with the patch applied (VERIF_REPO)"
dst = os.path.join('/verif/seeded', name)
os.makedirs(dst, exist_ok=True)
poh = os.path.join(src, 'patch-on-head.diff')
shutil.copy(poh if os.path.exists(poh) and os.path.getsize(poh) > 0 else os.path.join(src, 'patch.diff'), os.path.join(dst, 'patch.diff'))
if os.path.isdir(os.path.join(src, 'demo')):
    shutil.copytree(os.path.join(src, 'demo'), os.path.join(dst, 'demo'), dirs_exist_ok=True, ignore=shutil.ignore_patterns('.cache', 'prog.out', '*.out'))
breaks = ''
if os.path.exists(os.path.join(src, 'notes.md')):
    shutil.copy(os.path.join(src, 'notes.md'), os.path.join(dst, 'notes.md'))
    breaks = open(os.path.join(src, 'notes.md')).readline().strip()
json.dump({"property": prop, "breaks": breaks, "needs_to_manifest": needs, "what_was_run": ran, "caught_by": caught,
           "origin": "independent sub-agent given only the property text and a scratch worktree (eighth wave)"}, open(os.path.join(dst, 'meta.json'), 'w'), indent=1)
print('stored', dst)
