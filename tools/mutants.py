#!/usr/bin/env python3
"""Sensitivity sweep: apply each listed mutation (exact text replacement, nth occurrence)
to the working tree of /repo (or of the scratch worktree named by VERIF_REPO), run the property's check, restore.  Never leaves /repo modified.
usage: tools/mutants.py <listfile.py> [name-filter] ; list file defines ID, FILE, MUTANTS=[(name, old, new, nth)]"""
import subprocess, sys, os, re
spec = {}
exec(open(sys.argv[1]).read(), spec)
flt = sys.argv[2] if len(sys.argv) > 2 else ''
budget = os.environ.get('BUDGET', '10')
for m in spec['MUTANTS']:
    name, old, new = m[0], m[1], m[2]
    nth = m[3] if len(m) > 3 else 0
    fpath = m[4] if len(m) > 4 else spec['FILE']
    if flt and flt not in name: continue
    path = os.path.join(os.environ.get('VERIF_REPO', '/repo'), fpath)
    src = open(path).read()
    pos = -1
    for _ in range(nth + 1):
        pos = src.find(old, pos + 1)
        if pos < 0: break
    if pos < 0:
        print(f'{name}: PATTERN NOT FOUND'); continue
    try:
        open(path, 'w').write(src[:pos] + new + src[pos + len(old):])
        r = subprocess.run(['/verif/vcheck', spec['ID'], '-budget', budget] + spec.get('ARGS', []), capture_output=True, text=True)
        out = r.stdout + r.stderr
        classes = re.findall(r'unlisted violations by class: (map\[[^\]]*\])', out)
        first = re.findall(r'^  class=(\S+) .*?: (.*)$', out, re.M)
        print(f'{name}: exit={r.returncode} {classes[-1] if classes else ""} {"| " + first[0][0] + ": " + first[0][1][:140] if first else ""}')
        if r.returncode == 2: print(out[-600:])
    finally:
        open(path, 'w').write(src)
subprocess.run(['git', '-C', os.environ.get('VERIF_REPO', '/repo'), 'status', '--short'])
