#!/usr/bin/env python3
"""keepseed.py <name> <property> <srcdir> <needs> <ran> <caught-by>: store a confirmed seeded change under /verif/seeded/<name>/"""
import sys, os, shutil, json
name, prop, src, needs, ran, caught = sys.argv[1:7]
dst = f'/verif/seeded/{name}'
os.makedirs(dst, exist_ok=True)
for f in os.listdir(src):
    p = os.path.join(src, f)
    if f in ('patch.diff', 'notes.md', 'demo_test.go', 'demo.sh') and os.path.isfile(p):
        shutil.copy(p, dst)
    if f == 'demo' and os.path.isdir(p):
        d = os.path.join(dst, 'demo'); os.makedirs(d, exist_ok=True)
        for g in ('main.go', 'go.mod'):
            if os.path.exists(os.path.join(p, g)): shutil.copy(os.path.join(p, g), d)
json.dump({"property": prop, "breaks": open(os.path.join(src,'notes.md')).read().split('\n')[0][:300] if os.path.exists(os.path.join(src,'notes.md')) else "", "needs_to_manifest": needs, "what_was_run": ran, "caught_by": caught, "origin": "independent sub-agent given only the property text and a scratch worktree"}, open(os.path.join(dst, 'meta.json'), 'w'), indent=1)
print('kept', dst)
