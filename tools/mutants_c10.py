ID='C10'
FILE='runtime/internal/runtime/z_chan.go'
T='\t'
MUTANTS=[
 ('close-no-broadcast', 'notifyOps(p)\n\tp.mutex.Unlock()\n\tp.cond.Broadcast()\n}', 'notifyOps(p)\n\tp.mutex.Unlock()\n}'),
 ('close-no-notifyops', 'p.close = true\n\tnotifyOps(p)', 'p.close = true'),
 ('trysend-ignores-close', 'if p.len == n || p.close {\n\t\t\tp.mutex.Unlock()\n\t\t\treturn false', 'if p.len == n {\n\t\t\tp.mutex.Unlock()\n\t\t\treturn false'),
 ('send-buffered-off-by-one', 'for p.len == n {\n\t\t\tp.cond.Wait(&p.mutex)', 'for p.len > n {\n\t\t\tp.cond.Wait(&p.mutex)'),
 ('send-ring-offset', 'off := (p.getp + p.len) % n\n\t\tc.Memcpy(c.Advance(p.data, off*eltSize), v, uintptr(eltSize))\n\t\tp.len++\n\t}\n\tnotifyOps(p)\n\tp.mutex.Unlock()\n\tp.cond.Broadcast()\n\treturn true\n}\n\nfunc ChanTryRecv', 'off := (p.getp + p.len + 1) % n\n\t\tc.Memcpy(c.Advance(p.data, off*eltSize), v, uintptr(eltSize))\n\t\tp.len++\n\t}\n\tnotifyOps(p)\n\tp.mutex.Unlock()\n\tp.cond.Broadcast()\n\treturn true\n}\n\nfunc ChanTryRecv'),
 ('recv-buffered-no-broadcast', 'p.len--\n\t}\n\tnotifyOps(p)\n\tp.mutex.Unlock()\n\tp.cond.Broadcast()\n\tif n == 0 {\n\t\tp.mutex.Lock()\n\t\tfor p.getp == chanHasRecv && !p.close {', 'p.len--\n\t}\n\tnotifyOps(p)\n\tp.mutex.Unlock()\n\tif n == 0 {\n\t\tp.cond.Broadcast()\n\t\tp.mutex.Lock()\n\t\tfor p.getp == chanHasRecv && !p.close {'),
 ('recv-closed-before-drain', 'for p.len == 0 {\n\t\t\tif p.close {\n\t\t\t\tp.mutex.Unlock()\n\t\t\t\treturn false\n\t\t\t}\n\t\t\tp.cond.Wait(&p.mutex)\n\t\t}', 'if p.close {\n\t\t\tp.mutex.Unlock()\n\t\t\treturn false\n\t\t}\n\t\tfor p.len == 0 {\n\t\t\tp.cond.Wait(&p.mutex)\n\t\t}'),
 ('send-unbuf-no-notify-first', 'if p.sends == 1 || p.sends-1 == p.selsends {\n\t\t\t\tnotifyOps(p)\n\t\t\t}', ''),
 ('selectop-wait-no-reset', 'p.cond.Wait(&p.mutex)\n\t}\n\tp.sem = false', 'p.cond.Wait(&p.mutex)\n\t}'),
 ('selectop-notify-no-signal', 'p.sem = true\n\tp.mutex.Unlock()\n\tp.cond.Signal()', 'p.sem = true\n\tp.mutex.Unlock()'),
 ('endselect-keeps-sops', 'c.sops = append(c.sops[:i], c.sops[i+1:]...)\n\t\t\tbreak', 'break'),
 ('prepare-no-notify', "// A newly-registered select-send can make a select-recv runnable.\n\t\tnotifyOps(c)", ""),
 ('tryrecv-unbuf-skip-sends-check', 'if p.sends == 0 || p.getp != chanNoSendRecv || p.close {', 'if p.getp != chanNoSendRecv || p.close {'),
 ('endrecv-no-broadcast', 'notifyOps(p)\n\tp.mutex.Unlock()\n\tp.cond.Broadcast()\n\treturn\n}', 'notifyOps(p)\n\tp.mutex.Unlock()\n\treturn\n}'),
 ('endrecv-no-notifyops', 'p.getp = chanNoSendRecv\n\tnotifyOps(p)', 'p.getp = chanNoSendRecv'),
 ('chanlen-nolock', 'p.mutex.Lock()\n\tn = p.len\n\tp.mutex.Unlock()', 'n = p.len'),
 ('tryselect-skips-nil-check', 'if op.C == nil {\n\t\t\t// Nil-channel select cases are permanently disabled.\n\t\t\tcontinue\n\t\t}', 'if op.C == nil && isel > 0 {\n\t\t\tcontinue\n\t\t}'),
 ('sendfirst-flipped', 'return minSend < minRecv', 'return minSend > minRecv'),
 ('recv-buffered-ring-wrap', 'p.getp = (p.getp + 1) % n\n\t\tp.len--\n\t}\n\tnotifyOps(p)\n\tp.mutex.Unlock()\n\tp.cond.Broadcast()\n\tif n == 0 {\n\t\tp.mutex.Lock()\n\t\t// The senders', 'p.getp = (p.getp + 1) % (n + 1)\n\t\tp.len--\n\t}\n\tnotifyOps(p)\n\tp.mutex.Unlock()\n\tp.cond.Broadcast()\n\tif n == 0 {\n\t\tp.mutex.Lock()\n\t\t// The senders'),
 ('revert-F7-wait', 'for p.getp == chanHasRecv && !p.close && p.sends > 0 {', 'for p.getp == chanHasRecv && !p.close {'),
 ('revert-F1', 'recvOK = p.getp == chanDelivered', 'recvOK = !p.close'),
 # revert of F17
 ('revert-nil-channel-recv-blocks', 'func ChanRecv(p *Chan, v unsafe.Pointer, eltSize int) (recvOK bool) {\n\tif p == nil {', 'func ChanRecv(p *Chan, v unsafe.Pointer, eltSize int) (recvOK bool) {\n\tif false {'),
]
