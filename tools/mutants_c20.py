ID='C20'
FILE='internal/crosscompile/fetch.go'
MUTANTS=[
 ('tgz-honours-symlinks', '\t\tcase tar.TypeReg:\n\t\t\tif err := os.MkdirAll(filepath.Dir(target), 0755); err != nil {', '\t\tcase tar.TypeSymlink:\n\t\t\tos.MkdirAll(filepath.Dir(target), 0755)\n\t\t\tif err := os.Symlink(header.Linkname, target); err != nil {\n\t\t\t\treturn err\n\t\t\t}\n\t\tcase tar.TypeReg:\n\t\t\tif err := os.MkdirAll(filepath.Dir(target), 0755); err != nil {'),
 ('revert-zip-parent', '\t\tif err := os.MkdirAll(filepath.Dir(path), 0755); err != nil {\n\t\t\treturn err\n\t\t}\n', ''),
 ('revert-zip-slip', 'if path != filepath.Clean(dest) && !strings.HasPrefix(path, filepath.Clean(dest)+string(os.PathSeparator)) {\n\t\t\treturn fmt.Errorf("%s: illegal file path", path)\n\t\t}', ''),
 ('tgz-guard-uncleaned', 'target := filepath.Join(dest, header.Name)', 'target := dest + "/" + header.Name'),
 ('tgz-guard-prefix-no-sep', '!strings.HasPrefix(target, filepath.Clean(dest)+string(os.PathSeparator)) {\n\t\t\treturn fmt.Errorf("%s: illegal file path", target)', '!strings.HasPrefix(target, filepath.Clean(dest)) {\n\t\t\treturn fmt.Errorf("%s: illegal file path", target)'),
 ('revert-trunc', 'os.O_CREATE|os.O_RDWR|os.O_TRUNC', 'os.O_CREATE|os.O_RDWR'),
 ('revert-lock-recheck', 'if err1 == nil && err2 == nil && os.SameFile(locked, current) {', 'if true || (err1 == nil && err2 == nil && os.SameFile(locked, current)) {'),
 ('revert-release-order', '\tos.Remove(lockPath)\n\tsyscall.Flock(int(lockFile.Fd()), syscall.LOCK_UN)\n\tlockFile.Close()\n', '\tsyscall.Flock(int(lockFile.Fd()), syscall.LOCK_UN)\n\tlockFile.Close()\n\tos.Remove(lockPath)\n'),
 ('no-double-check', '\t// Double-check after acquiring lock\n\tif _, err := os.Stat(dstDir); err == nil {\n\t\treturn nil\n\t}\n\tfmt.Fprintf', '\tfmt.Fprintf'),
 ('extract-in-place', 'tempDir := destDir + ".temp"', 'tempDir := destDir'),
 ('skip-lock', 'lockFile, err := acquireLock(lockPath)\n\tif err != nil {\n\t\treturn fmt.Errorf("failed to acquire lock: %w", err)\n\t}\n\tdefer releaseLock(lockFile)\n\n\t// Double-check after acquiring lock\n\tif _, err := os.Stat(dstDir)', 'var lockFile *os.File\n\t_ = lockPath\n\tdefer releaseLock(lockFile)\n\n\t// Double-check after acquiring lock\n\tif _, err := os.Stat(dstDir)'),
 ('download-ignore-status', 'if resp.StatusCode != http.StatusOK {', 'if false {'),
 ('download-ignore-copy-err', '_, err = io.Copy(out, resp.Body)\n\treturn err', '_, _ = io.Copy(out, resp.Body)\n\treturn nil'),
 ('tgz-ignore-copy-err', 'if _, err := io.Copy(f, tr); err != nil {\n\t\t\t\tf.Close()\n\t\t\t\treturn err\n\t\t\t}', 'io.Copy(f, tr)'),
 ('tgz-swallow-next-err', '\t\tif err != nil {\n\t\t\treturn err\n\t\t}\n\t\ttarget :=', '\t\tif err != nil {\n\t\t\tbreak\n\t\t}\n\t\ttarget :='),
 ('zip-ignore-close-err-and-copy', 'if _, err := io.Copy(w, fs); err != nil {\n\t\t\tw.Close()\n\t\t\treturn err\n\t\t}', 'io.Copy(w, fs)'),
 ('zip-stop-first-error-swallowed', 'if err = decompress(file); err != nil {\n\t\t\tbreak\n\t\t}', 'if err = decompress(file); err != nil {\n\t\t\terr = nil\n\t\t\tbreak\n\t\t}'),
 ('rename-before-extract-cleanup', 'defer os.RemoveAll(tempExtractDir)\n\n\tsrcDir := tempExtractDir', 'srcDir := tempExtractDir'),
 # reverts of F18, F19
 ('revert-hardlink-entries', '\t\tcase tar.TypeLink:', '\t\tcase tar.TypeFifo:'),
 ('revert-stale-extract-removal', '\tos.RemoveAll(tempExtractDir) // left behind by a process that was killed\n\tif err := downloadAndExtractArchive(url,', '\tif err := downloadAndExtractArchive(url,'),
 # reverts of F23, F24
 ('revert-unlink-before-create', '\t\t\tif fi, err := os.Lstat(target); err == nil && !fi.IsDir() {', '\t\t\tif fi, err := os.Lstat(target); err != nil && fi != nil && !fi.IsDir() {'),
 ('revert-tree-subdirectory', '\ttreeDir := filepath.Join(tempDir, "tree")', '\ttreeDir := tempDir'),
 ('no-temp-cleanup-before-use', '\tif err := os.RemoveAll(tempDir); err != nil {\n\t\treturn fmt.Errorf("failed to clear temporary directory: %w", err)\n\t}\n', ''),
 # reverts of F29, F30
 ('revert-contiguous-files', 'case tar.TypeReg, tar.TypeCont:', 'case tar.TypeReg:'),
 ('revert-self-link-skipped', '\t\t\tif source == target {\n\t\t\t\tcontinue', '\t\t\tif false {\n\t\t\t\tcontinue'),
 # revert of F31
 ('revert-temp-removal-checked', '\tif err := os.RemoveAll(tempDir); err != nil {\n\t\treturn fmt.Errorf("failed to clear temporary directory: %w", err)\n\t}\n', '\tos.RemoveAll(tempDir)\n'),
]
