#!/bin/bash
# confirmllgo.sh <seed-dir> <worktree>: for a seeded change whose demonstration is a program compiled by llgo
# (demo/run.sh <llgo-binary> <LLGO_ROOT worktree>): run it on the clean worktree with a compiler built from it (must
# pass), then with patch.diff applied (compiler rebuilt when the patch touches anything outside runtime/) (must fail).
# Needs /tmp/llgo-tools (build-llgo.sh, run-llgo.sh: the sandbox recipe for running llgo on LLVM 14).
D=$(readlink -f "${1:?seed dir}"); WT=${2:?worktree}
git -C "$WT" reset -q --hard; git -C "$WT" clean -fdq
T=$(mktemp -d /tmp/confirmllgo-XXXXXX); trap 'rm -rf "$T"' EXIT
/tmp/llgo-tools/build-llgo.sh "$WT" "$T/llgo-clean" >/dev/null 2>&1 || { echo "cannot build llgo from the clean worktree"; exit 2; }
echo "--- unchanged:"; bash "$D/demo/run.sh" "$T/llgo-clean" "$WT" 2>&1 | tail -${TAILN:-5}; rc0=${PIPESTATUS[0]}
git -C "$WT" apply "$D/patch.diff" 2>/dev/null || git -C "$WT" apply -3 "$D/patch.diff" >/dev/null 2>&1 || { echo "patch does not apply"; exit 2; }
git -C "$WT" diff > "$D/patch-on-head.diff"
LL="$T/llgo-clean"
if git -C "$WT" diff --name-only | grep -qv '^runtime/'; then
  /tmp/llgo-tools/build-llgo.sh "$WT" "$T/llgo-changed" >/dev/null 2>&1 || { echo "cannot build llgo with the change"; exit 2; }
  LL="$T/llgo-changed"
fi
echo "--- with the change:"; bash "$D/demo/run.sh" "$LL" "$WT" 2>&1 | tail -${TAILN:-5}; rc1=${PIPESTATUS[0]}
git -C "$WT" reset -q --hard; git -C "$WT" clean -fdq
echo "=== $(basename "$D"): unchanged rc=$rc0, changed rc=$rc1"
