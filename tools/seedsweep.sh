#!/bin/bash
# seedsweep.sh <first> <last>: every registered quick check on the unchanged tree under several VERIF_SEED values
for s in $(seq $1 $2); do
  for id in C06 C10 C11 C20 C13; do
    out=$(VERIF_SEED=$s ./vcheck $id --tier quick 2>&1); rc=$?
    echo "seed=$s $id exit=$rc $(echo "$out" | grep -c '^VIOLATION') violations; $(echo "$out" | tail -1 | cut -c1-200)"
  done
done
