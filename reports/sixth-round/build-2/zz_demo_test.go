package crosscompile

import (
	"archive/tar"
	"bytes"
	"compress/gzip"
	"net/http"
	"net/http/httptest"
	"os"
	"path/filepath"
	"testing"
)

func demoTarGz(t *testing.T, files map[string]string) []byte {
	t.Helper()
	var buf bytes.Buffer
	gz := gzip.NewWriter(&buf)
	tw := tar.NewWriter(gz)
	for name, content := range files {
		if err := tw.WriteHeader(&tar.Header{Name: name, Typeflag: tar.TypeReg, Mode: 0644, Size: int64(len(content))}); err != nil {
			t.Fatal(err)
		}
		if _, err := tw.Write([]byte(content)); err != nil {
			t.Fatal(err)
		}
	}
	if err := tw.Close(); err != nil {
		t.Fatal(err)
	}
	if err := gz.Close(); err != nil {
		t.Fatal(err)
	}
	return buf.Bytes()
}

func demoServe(t *testing.T, name string, body []byte) *httptest.Server {
	t.Helper()
	srv := httptest.NewServer(http.HandlerFunc(func(w http.ResponseWriter, r *http.Request) {
		if r.URL.Path != "/"+name {
			http.NotFound(w, r)
			return
		}
		w.Write(body)
	}))
	t.Cleanup(srv.Close)
	return srv
}

// An llgo process that was killed between publishing <dst>.extract and moving
// the library out of it (or while it removed the rest of <dst>.extract after a
// failed move) leaves <dst>.extract behind and no <dst>. The next request
// holds the lock, downloads and unpacks the archive again - and must end with
// one complete copy in <dst>. Today it fails with "failed to rename directory
// ... directory not empty", and so does every later request, until the user
// finds and deletes the left-over directory by hand.
func TestDemoLibRequestAfterKilledRun(t *testing.T) {
	body := demoTarGz(t, map[string]string{
		"lib-1.0/include/lib.h": "#define LIB 1\n",
		"lib-1.0/src/lib.c":     "int lib(void) { return 1; }\n",
	})
	srv := demoServe(t, "lib-1.0.tar.gz", body)

	root := t.TempDir()
	dst := filepath.Join(root, "crosscompile", "lib-1.0")

	// what the killed process left
	stale := dst + ".extract"
	if err := os.MkdirAll(filepath.Join(stale, "lib-1.0", "src"), 0755); err != nil {
		t.Fatal(err)
	}
	if err := os.WriteFile(filepath.Join(stale, "lib-1.0", "src", "lib.c"), []byte("int li"), 0644); err != nil {
		t.Fatal(err)
	}

	for attempt := 1; attempt <= 2; attempt++ {
		err := checkDownloadAndExtractLib(srv.URL+"/lib-1.0.tar.gz", dst, "lib-1.0")
		if err != nil {
			t.Errorf("request %d after a killed run: %v", attempt, err)
			continue
		}
		got, err := os.ReadFile(filepath.Join(dst, "src", "lib.c"))
		if err != nil || string(got) != "int lib(void) { return 1; }\n" {
			t.Errorf("request %d: src/lib.c = %q, %v", attempt, got, err)
		}
	}
}

// The WASI SDK is unpacked into <cache>/crosscompile/<triple>/ and is looked
// for in the sub-directory named after the SDK release. If the directory is
// there but the sub-directory is not - an llgo that used another SDK release
// populated it, or somebody removed the big sub-directory to save space - the
// request downloads and unpacks the whole SDK and then fails to publish it:
// rename(<dir>.temp, <dir>) cannot replace a non-empty directory. Every later
// wasm build fails the same way after downloading the SDK once more.
func TestDemoWasiSDKRequestIntoPopulatedDirectory(t *testing.T) {
	body := demoTarGz(t, map[string]string{
		wasiMacosSubdir + "/share/wasi-sysroot/include/stdio.h": "/* stdio */\n",
		wasiMacosSubdir + "/lib/clang/19/include/stddef.h":      "/* stddef */\n",
	})
	srv := demoServe(t, "wasi-sdk.tar.gz", body)
	oldURL := wasiSdkUrl
	wasiSdkUrl = srv.URL + "/wasi-sdk.tar.gz"
	defer func() { wasiSdkUrl = oldURL }()

	root := t.TempDir()
	dir := filepath.Join(root, "crosscompile", "wasm32-unknown-wasip1")
	older := filepath.Join(dir, "wasi-sdk-24.0-x86_64-macos", "share")
	if err := os.MkdirAll(older, 0755); err != nil {
		t.Fatal(err)
	}

	sdkRoot, err := checkDownloadAndExtractWasiSDK(dir)
	if err != nil {
		t.Fatalf("request with an older SDK release in the directory: %v", err)
	}
	got, err := os.ReadFile(filepath.Join(sdkRoot, "share", "wasi-sysroot", "include", "stdio.h"))
	if err != nil || string(got) != "/* stdio */\n" {
		t.Fatalf("stdio.h = %q, %v", got, err)
	}
}
