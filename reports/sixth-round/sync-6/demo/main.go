package main

import (
	"runtime"
	"sync"
	"sync/atomic"
)

// "Wake every worker that is idle right now": one non-blocking send per
// worker. Each send must succeed as long as a receiver is still blocked on
// the channel.
func trySend(c chan int, v int) bool {
	select {
	case c <- v:
		return true
	default:
		return false
	}
}

var sink int64

// settle gives goroutines that are about to block plenty of time to do so.
func settle() {
	for i := 0; i < 2000; i++ {
		runtime.Gosched()
		for k := 0; k < 20000; k++ {
			atomic.AddInt64(&sink, 1)
		}
	}
}

func main() {
	const W = 4
	wake := make(chan int) // unbuffered
	var ready, done sync.WaitGroup
	for w := 0; w < W; w++ {
		ready.Add(1)
		done.Add(1)
		go func() {
			defer done.Done()
			ready.Done()
			<-wake // idle worker, blocked in a plain receive
		}()
	}
	ready.Wait()
	settle() // all W workers are now blocked in <-wake

	woken := 0
	for w := 0; w < W; w++ {
		if trySend(wake, w) {
			woken++
		}
	}
	if woken != W {
		println("BAD:", W, "receivers were blocked on the channel, but only", woken, "of", W, "non-blocking sends succeeded (the others took default)")
		for w := woken; w < W; w++ {
			wake <- w // release the rest
		}
		done.Wait()
		return
	}
	done.Wait()
	println("OK")
}
