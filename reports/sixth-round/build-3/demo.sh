#!/bin/bash
# C13 demo: the CFLAGS / CCFLAGS environment variables are passed to every clang
# run that compiles a package's C side files, but are not part of the package
# fingerprint.
# usage: demo.sh [llgo-binary [llgo-root]]     prints OK or FAIL
set -u
HERE=$(cd "$(dirname "$0")" && pwd)
LLGO=$(readlink -f "${1:-${LLGO:-/tmp/hunt6-build/llgo}}")
ROOT=$(readlink -f "${2:-${LLGO_ROOT:-/tmp/wt-w6c}}")
WARM=${WARM_CACHE:-/tmp/hunt6-build/warm-cache}
W=$(mktemp -d /tmp/hunt6-demo3-XXXXXX)
trap 'rm -rf "$W"' EXIT
cp -a "$HERE/demo" "$W/demo"
mkdir -p "$W/home" "$W/tmp"
if [ -d "$WARM" ]; then cp -a "$WARM" "$W/cache"; cp -a "$WARM" "$W/cache-ref"; fi

# llgo <cache-dir> <extra env assignment or ""> args...
llgo() {
	local cache=$1 extra=$2; shift 2
	( cd "$W/demo" && env -i PATH=/usr/lib/go-1.23/bin:/usr/bin:/bin HOME="$W/home" TMPDIR="$W/tmp" \
		LLGO_ROOT="$ROOT" LLVM_CONFIG=/tmp/llgo-tools/shim/bin/llvm-config GOTOOLCHAIN=local \
		GOFLAGS=-mod=mod GOPROXY=off GOWORK=off XDG_CACHE_HOME="$cache" \
		GOCACHE=/root/.cache/go-build GOMODCACHE=/root/go/pkg/mod $extra "$LLGO" "$@" ) 2>&1
}
hit() { grep -E "^CACHE (HIT|MISS): example.com/demo/mid$" | tr '\n' ' '; }

echo "== step 1: build without CFLAGS"
llgo "$W/cache" "" build -v -o "$W/out1" . > "$W/log1" || { cat "$W/log1"; echo "FAIL (build error)"; exit 2; }
hit < "$W/log1"; r1=$("$W/out1" 2>&1); echo "-> $r1"

echo "== step 2: same sources, CFLAGS=-DW_SCALE=3 in the environment"
llgo "$W/cache" "CFLAGS=-DW_SCALE=3" build -v -o "$W/out2" . > "$W/log2" || { cat "$W/log2"; echo "FAIL (build error)"; exit 2; }
hit < "$W/log2"; r2=$("$W/out2" 2>&1); echo "-> $r2"

echo "== reference: clean build (other cache directory, -a) with CFLAGS=-DW_SCALE=3"
llgo "$W/cache-ref" "CFLAGS=-DW_SCALE=3" build -a -v -o "$W/out3" . > "$W/log3" || { cat "$W/log3"; echo "FAIL (build error)"; exit 2; }
r3=$("$W/out3" 2>&1); echo "-> $r3"

if [ "$r1" != "mid: 7" ] || [ "$r3" != "mid: 21" ]; then echo "FAIL (unexpected reference output)"; exit 2; fi
if [ "$r2" = "$r3" ]; then echo OK; else echo "FAIL: the build with CFLAGS=-DW_SCALE=3 reused the archive compiled without it: got '$r2', a clean build gives '$r3'"; exit 1; fi
