module example.com/demo

go 1.23
