package main

import "example.com/demo/mid"

func main() {
	println("mid:", mid.Value())
}
