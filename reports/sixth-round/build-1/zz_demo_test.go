package crosscompile

import (
	"archive/tar"
	"bytes"
	"compress/gzip"
	"os"
	"path/filepath"
	"testing"
)

// A tool-chain tree in which one regular file has two names (bin/clang and
// bin/clang-19 are hard links of each other, as `tar` stores them: the second
// name becomes a TypeLink entry that carries no data of its own) must come out
// of extractTarGz with both names, or the archive must be refused. Today the
// TypeLink entry is skipped without any error, so a regular file of the
// archived tree is silently missing from the "successfully" extracted copy.
func TestDemoTarGzHardLinkedFileIsDropped(t *testing.T) {
	payload := []byte("#!/bin/sh\necho clang 19\n")

	var buf bytes.Buffer
	gz := gzip.NewWriter(&buf)
	tw := tar.NewWriter(gz)
	write := func(h *tar.Header, data []byte) {
		t.Helper()
		if err := tw.WriteHeader(h); err != nil {
			t.Fatal(err)
		}
		if len(data) > 0 {
			if _, err := tw.Write(data); err != nil {
				t.Fatal(err)
			}
		}
	}
	write(&tar.Header{Name: "sdk/", Typeflag: tar.TypeDir, Mode: 0755}, nil)
	write(&tar.Header{Name: "sdk/bin/", Typeflag: tar.TypeDir, Mode: 0755}, nil)
	write(&tar.Header{Name: "sdk/bin/clang", Typeflag: tar.TypeReg, Mode: 0755, Size: int64(len(payload))}, payload)
	// what GNU tar, bsdtar and archive/tar's FileInfoHeader users emit for the
	// second name of an already archived inode
	write(&tar.Header{Name: "sdk/bin/clang-19", Typeflag: tar.TypeLink, Linkname: "sdk/bin/clang", Mode: 0755}, nil)
	if err := tw.Close(); err != nil {
		t.Fatal(err)
	}
	if err := gz.Close(); err != nil {
		t.Fatal(err)
	}

	root := t.TempDir()
	archive := filepath.Join(root, "sdk.tar.gz")
	if err := os.WriteFile(archive, buf.Bytes(), 0644); err != nil {
		t.Fatal(err)
	}
	dest := filepath.Join(root, "dest")
	if err := os.MkdirAll(dest, 0755); err != nil {
		t.Fatal(err)
	}

	err := extractTarGz(archive, dest)
	if err != nil {
		// refusing the archive loudly would be acceptable
		t.Logf("extractTarGz refused the archive: %v", err)
		return
	}
	first, err := os.ReadFile(filepath.Join(dest, "sdk/bin/clang"))
	if err != nil || !bytes.Equal(first, payload) {
		t.Fatalf("sdk/bin/clang: %v %q", err, first)
	}
	second, err := os.ReadFile(filepath.Join(dest, "sdk/bin/clang-19"))
	if err != nil {
		t.Fatalf("extractTarGz reported success, but the hard-linked regular file sdk/bin/clang-19 was not recreated: %v", err)
	}
	if !bytes.Equal(second, payload) {
		t.Fatalf("sdk/bin/clang-19 has wrong content %q", second)
	}
}

// Guard for a repair (passes today because link entries are ignored): the hard
// link target is a name inside the archive; one that points outside the
// destination must not make extraction link or copy a file from outside.
func TestDemoTarGzHardLinkOutsideIsNotFollowed(t *testing.T) {
	root := t.TempDir()
	secret := filepath.Join(root, "secret.txt")
	if err := os.WriteFile(secret, []byte("outside"), 0600); err != nil {
		t.Fatal(err)
	}

	var buf bytes.Buffer
	gz := gzip.NewWriter(&buf)
	tw := tar.NewWriter(gz)
	if err := tw.WriteHeader(&tar.Header{Name: "leak", Typeflag: tar.TypeLink, Linkname: "../secret.txt", Mode: 0644}); err != nil {
		t.Fatal(err)
	}
	tw.Close()
	gz.Close()
	archive := filepath.Join(root, "x.tar.gz")
	if err := os.WriteFile(archive, buf.Bytes(), 0644); err != nil {
		t.Fatal(err)
	}
	dest := filepath.Join(root, "dest")
	os.MkdirAll(dest, 0755)

	err := extractTarGz(archive, dest)
	if _, statErr := os.Lstat(filepath.Join(dest, "leak")); statErr == nil {
		t.Fatalf("a hard link to a file outside the destination was created (err=%v)", err)
	}
}
