package main

import "sync"

// The classic worker loop: handle work until told to quit. Both channels are
// ready from the start; Go chooses among ready cases by "uniform pseudo-random
// selection", so quit is seen after a handful of iterations (P(not within
// 1000) = 2^-1000), however much work is queued.
func main() {
	const backlog = 200000
	work := make(chan int, backlog)
	fill(work, backlog)
	quit := make(chan struct{}, 1)
	quit <- struct{}{} // the request to stop is already pending

	var wg sync.WaitGroup
	handled := 0
	wg.Add(1)
	go func() {
		defer wg.Done()
		for step(work, quit) {
			handled++
		}
	}()
	wg.Wait()

	// second view of the same thing: two always-ready cases
	a, b := make(chan int), make(chan int)
	close(a)
	close(b)
	na, nb := 0, 0
	for i := 0; i < 1000; i++ {
		na, nb = pick(a, b, na, nb)
	}

	if handled >= 1000 || na == 0 || nb == 0 {
		println("BAD: pending quit was served only after", handled, "work items; 1000 selects over two ready cases chose them", na, "/", nb, "times")
		return
	}
	println("OK")
}

func fill(work chan int, n int) {
	for i := 0; i < n; i++ {
		put(work, i)
	}
}

func put(work chan int, i int) { work <- i }

// step handles one work item, or reports false when asked to quit.
func step(work chan int, quit chan struct{}) bool {
	select {
	case <-work:
		return true
	case <-quit:
		return false
	}
}

func pick(a, b chan int, na, nb int) (int, int) {
	select {
	case <-a:
		na++
	case <-b:
		nb++
	}
	return na, nb
}
