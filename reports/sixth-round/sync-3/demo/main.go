package main

import "sync"

// 3000 goroutines alive at the same time, each using defer (as practically
// every real goroutine does: defer wg.Done(), defer mu.Unlock(), ...).
func main() {
	const N = 3000
	var wg sync.WaitGroup
	start := make(chan struct{})
	res := make(chan int, N)
	for i := 0; i < N; i++ {
		wg.Add(1)
		go func(i int) {
			defer wg.Done()
			<-start
			res <- i
		}(i)
	}
	close(start)
	wg.Wait()
	close(res)
	s := 0
	for v := range res {
		s += v
	}
	if s != N*(N-1)/2 {
		println("BAD: sum", s)
		return
	}
	println("OK")
}
