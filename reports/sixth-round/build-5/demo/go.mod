module example.com/demo

go 1.23

require example.org/lib v1.0.0
