#!/bin/bash
# C13 demo: a dependency that belongs to a module with a version is recorded in
# the importer's manifest by that version string alone. The module here lives
# in the main module's vendor directory; its source is edited (as the go tool
# permits, and as re-vendoring a "replace"d or re-tagged module does) while the
# version string stays the same.
# usage: demo.sh [llgo-binary [llgo-root]]     prints OK or FAIL
set -u
HERE=$(cd "$(dirname "$0")" && pwd)
LLGO=$(readlink -f "${1:-${LLGO:-/tmp/hunt6-build/llgo}}")
ROOT=$(readlink -f "${2:-${LLGO_ROOT:-/tmp/wt-w6c}}")
WARM=${WARM_CACHE:-/tmp/hunt6-build/warm-cache}
W=$(mktemp -d /tmp/hunt6-demo5-XXXXXX)
trap 'rm -rf "$W"' EXIT
cp -a "$HERE/demo" "$W/demo"
mkdir -p "$W/home" "$W/tmp"
if [ -d "$WARM" ]; then cp -a "$WARM" "$W/cache"; cp -a "$WARM" "$W/cache-ref"; fi

# GOFLAGS is left empty: the go command then uses the vendor directory of the
# main module on its own (go.mod says go >= 1.14 and vendor/modules.txt exists).
llgo() {
	local cache=$1; shift
	( cd "$W/demo" && env -i PATH=/usr/lib/go-1.23/bin:/usr/bin:/bin HOME="$W/home" TMPDIR="$W/tmp" \
		LLGO_ROOT="$ROOT" LLVM_CONFIG=/tmp/llgo-tools/shim/bin/llvm-config GOTOOLCHAIN=local \
		GOPROXY=off GOWORK=off XDG_CACHE_HOME="$cache" \
		GOCACHE=/root/.cache/go-build GOMODCACHE=/root/go/pkg/mod "$LLGO" "$@" ) 2>&1
}
hit() { grep -E "^CACHE (HIT|MISS): (example.com/demo/mid|example.org/lib)$" | tr '\n' ' '; }

echo "== step 1: build with  const K = 40  in vendor/example.org/lib"
llgo "$W/cache" build -v -o "$W/out1" . > "$W/log1" || { cat "$W/log1"; echo "FAIL (build error)"; exit 2; }
hit < "$W/log1"; r1=$("$W/out1" 2>&1); echo "-> $r1"

echo "== step 2: change it to  const K = 50  and rebuild"
sleep 1
sed -i 's/K = 40/K = 50/' "$W/demo/vendor/example.org/lib/lib.go"
llgo "$W/cache" build -v -o "$W/out2" . > "$W/log2" || { cat "$W/log2"; echo "FAIL (build error)"; exit 2; }
hit < "$W/log2"; r2=$("$W/out2" 2>&1); echo "-> $r2"

echo "== reference: clean build of the edited sources (other cache directory, -a)"
llgo "$W/cache-ref" build -a -v -o "$W/out3" . > "$W/log3" || { cat "$W/log3"; echo "FAIL (build error)"; exit 2; }
r3=$("$W/out3" 2>&1); echo "-> $r3"

if [ "$r1" != "mid: 42" ] || [ "$r3" != "mid: 52" ]; then echo "FAIL (unexpected reference output)"; exit 2; fi
if [ "$r2" = "$r3" ]; then echo OK; else echo "FAIL: the dependency was recompiled but its importer was served from the cache: got '$r2', a clean build gives '$r3'"; exit 1; fi
