package main

import (
	"sync"
	"sync/atomic"
)

type buf struct {
	owner int32 // 0 = in the pool, otherwise id of the goroutine that holds it
	data  [8]int
}

// sync.Pool: "A Pool is safe for use by multiple goroutines simultaneously";
// an item obtained with Get belongs to the caller until it Puts it back.
func main() {
	pool := sync.Pool{New: func() any { return new(buf) }}
	const G = 8
	const N = 100000
	var shared, nilget int64
	var wg sync.WaitGroup
	for g := 1; g <= G; g++ {
		wg.Add(1)
		go func(id int32) {
			defer wg.Done()
			for i := 0; i < N; i++ {
				b, _ := pool.Get().(*buf)
				if b == nil {
					atomic.AddInt64(&nilget, 1) // Get returned neither a pooled item nor New()
					continue
				}
				if !atomic.CompareAndSwapInt32(&b.owner, 0, id) {
					atomic.AddInt64(&shared, 1) // somebody else holds this very item right now
					continue
				}
				b.data[i&7] = i
				atomic.StoreInt32(&b.owner, 0)
				pool.Put(b)
			}
		}(int32(g))
	}
	wg.Wait()
	if shared != 0 || nilget != 0 {
		println("BAD: Pool.Get returned an item that another goroutine was holding", shared, "times, and a nil item", nilget, "times")
		return
	}
	println("OK")
}
