package main

// Looking up a missing key must yield the zero value of the element type.
// For element types larger than 1024 bytes the result contains garbage.

type E1024 [1024]byte
type E1025 [1025]byte
type E3000 [3000]byte
type Rec struct {
	id   int
	name string
	data [400]int64
}

func nonzero(b []byte) int {
	n := 0
	for _, x := range b {
		if x != 0 {
			n++
		}
	}
	return n
}

func main() {
	fails := 0

	m0 := map[int]E1024{1: {}}
	v0 := m0[2]
	println("1024-byte elem, missing key: non-zero bytes =", nonzero(v0[:]))
	fails += nonzero(v0[:])

	m1 := map[int]E1025{1: {}}
	v1 := m1[2]
	println("1025-byte elem, missing key: non-zero bytes =", nonzero(v1[:]))
	fails += nonzero(v1[:])

	m2 := map[string]E3000{"a": {}}
	v2, ok := m2["b"]
	println("3000-byte elem, missing key (comma-ok): non-zero bytes =", nonzero(v2[:]), "ok =", ok)
	fails += nonzero(v2[:])
	if ok {
		fails++
	}

	var nilmap map[string]E3000
	v3 := nilmap["x"]
	println("3000-byte elem, nil map: non-zero bytes =", nonzero(v3[:]))
	fails += nonzero(v3[:])

	m4 := map[int]Rec{}
	r := m4[7]
	bad := 0
	if r.id != 0 || r.name != "" {
		bad++
	}
	for _, x := range r.data {
		if x != 0 {
			bad++
		}
	}
	println("struct elem of", 8+16+400*8, "bytes, empty map: non-zero fields =", bad)
	fails += bad

	// the usual idiom: read-modify-write of a missing entry starts from zero
	type Counters [200]int
	c := map[string]Counters{}
	t := c["hits"]
	t[199]++
	c["hits"] = t
	sum := 0
	for _, x := range c["hits"] {
		sum += x
	}
	println("sum of counters after one increment =", sum)
	if sum != 1 {
		fails++
	}

	if fails == 0 {
		println("OK")
	} else {
		println("FAIL")
	}
}
