package main

import "sync"

// A receive from / send to a nil channel blocks forever (Go spec, "Send
// statements", "Receive operator"). Parking a goroutine on a nil channel is
// legal; the rest of the program must go on.
func main() {
	var nilc chan int
	var started sync.WaitGroup
	started.Add(2)
	go func() {
		started.Done()
		<-nilc // blocks forever
		println("BAD: receive from nil channel returned")
	}()
	go func() {
		started.Done()
		nilc <- 1 // blocks forever
		println("BAD: send to nil channel returned")
	}()
	started.Wait()

	// some unrelated work that gives both goroutines time to reach the operation
	done := make(chan int)
	go func() {
		s := 0
		for i := 0; i < 20000000; i++ {
			s += i & 3
		}
		done <- s
	}()
	if <-done > 0 {
		println("OK")
	}
}
