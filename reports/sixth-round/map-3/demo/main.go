package main

import "unsafe"

// Keys that are arrays of a struct type ending in a zero-size field: entries
// are stored but cannot be found again.

type T struct {
	a int64
	z struct{} // zero-size last field
}

type K [3]T

func key(i int) K { return K{{a: int64(i)}, {a: int64(2 * i)}, {a: int64(3 * i)}} }

func main() {
	fails := 0
	println("unsafe.Sizeof(T{}) =", unsafe.Sizeof(T{}), " unsafe.Sizeof(K{}) =", unsafe.Sizeof(K{}))

	m := map[K]int{}
	for i := 0; i < 100; i++ {
		m[key(i)] = i
	}
	println("len after 100 inserts:", len(m))
	if len(m) != 100 {
		fails++
	}

	missing, wrong := 0, 0
	for i := 0; i < 100; i++ {
		v, ok := m[key(i)]
		if !ok {
			missing++
		} else if v != i {
			wrong++
		}
	}
	println("lookups of stored keys: missing =", missing, "wrong value =", wrong)
	fails += missing + wrong

	for i := 0; i < 100; i++ {
		m[key(i)] = -i // update, must not add entries
	}
	println("len after updating all 100 keys:", len(m))
	if len(m) != 100 {
		fails++
	}

	for i := 0; i < 100; i++ {
		delete(m, key(i))
	}
	println("len after deleting all keys:", len(m))
	if len(m) != 0 {
		fails++
	}

	// same key type as dynamic type of an interface key
	a := map[any]string{}
	a[key(1)] = "one"
	a[key(1)] = "uno"
	println("interface keys: len =", len(a), "value =", a[key(1)])
	if len(a) != 1 || a[key(1)] != "uno" {
		fails++
	}

	if fails == 0 {
		println("OK")
	} else {
		println("FAIL")
	}
}
