package main

import "maps"

// maps.Clone of a map that is over its load limit while a same-size grow is
// in progress crashes (or returns a clone with different contents).
//
// A map gets into that state like this: it sits at its load limit (8 buckets:
// 6.5*8 = 52 entries in Go 1.23, 6*8 = 48 in llgo's port), keys are replaced
// (delete one, insert a new one) until so many overflow buckets have piled up
// that an insert starts a same-size grow, and the very next insert adds a 49th
// (53rd) entry - a growing map cannot start another grow. Whether the last
// insert of the churn phase was the one that started the grow cannot be seen
// from outside, so the program simply tries many times (about 1 in 450 tries
// hits the window).

var seed uint64 = 7

func rnd() int {
	seed ^= seed << 13
	seed ^= seed >> 7
	seed ^= seed << 17
	return int(seed >> 1 & 0x7fffffff)
}

func same(a, b map[int]int) bool {
	if len(a) != len(b) {
		return false
	}
	for k, v := range a {
		if w, ok := b[k]; !ok || w != v {
			return false
		}
	}
	return true
}

func attempt(n int) bool {
	m := map[int]int{}
	keys := make([]int, 52-4*(n%2)) // 52 or 48 entries
	next := n * 100000
	for i := range keys {
		m[next] = next
		keys[i] = next
		next++
	}
	k := rnd() % 1200
	for step := 0; step < k; step++ {
		i := rnd() % len(keys)
		delete(m, keys[i])
		keys[i] = next
		m[next] = next
		next++
	}
	m[-1] = -1 // one more entry: over the load limit if the map is growing
	c := maps.Clone(m)
	if !same(c, m) {
		println("attempt", n, ": len(m) =", len(m), "len(clone) =", len(c), "- clone differs")
		return false
	}
	return true
}

func main() {
	bad := 0
	for n := 0; n < 40000 && bad == 0; n++ {
		if n%10000 == 0 {
			println("attempt", n, "...")
		}
		if !attempt(n) {
			bad++
		}
	}
	println("clones that differ from their source:", bad)
	if bad == 0 {
		println("OK")
	} else {
		println("FAIL")
	}
}
