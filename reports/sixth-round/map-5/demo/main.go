package main

import "maps"

// maps.Clone must return an independent copy. For element (or key) types
// larger than 128 bytes the clone shares the element storage with the
// original: storing into the clone changes what the original returns.

type Big [200]byte

func main() {
	fails := 0

	m := map[int]Big{}
	for i := 0; i < 20; i++ {
		m[i] = Big{0: byte(i)}
	}
	c := maps.Clone(m)
	for i := 0; i < 20; i++ {
		c[i] = Big{0: 100 + byte(i)} // update the clone only
	}
	changed := 0
	for i := 0; i < 20; i++ {
		if m[i][0] != byte(i) {
			changed++
		}
	}
	println("20-entry map: entries of the original changed by updating the clone:", changed)
	fails += changed

	// and the other way round, with a one-bucket map
	s := map[string]Big{"a": {1}, "b": {2}}
	sc := maps.Clone(s)
	s["a"] = Big{9}
	delete(s, "b")
	s["c"] = Big{3}
	println("2-entry map: clone[a][0] =", sc["a"][0], "(want 1)  clone[b][0] =", sc["b"][0], "(want 2)  len(clone) =", len(sc))
	if sc["a"][0] != 1 || sc["b"][0] != 2 || len(sc) != 2 {
		fails++
	}

	// small elems are copied correctly
	n := map[int]int{1: 1, 2: 2}
	nc := maps.Clone(n)
	nc[1] = 100
	if n[1] != 1 {
		println("small elems shared")
		fails++
	}

	if fails == 0 {
		println("OK")
	} else {
		println("FAIL")
	}
}
