package main

// Interface-typed map keys whose dynamic types are different struct types
// (they differ only in a field tag, or in the name of an embedded field
// declared through an alias) must be different keys.

type A struct{ N int }
type X = A

var fails int

func check(name string, cond bool) {
	if !cond {
		println("FAIL:", name)
		fails++
	}
}

func main() {
	m := map[any]string{}
	m[struct {
		N int `json:"a"`
	}{1}] = "tag a"
	m[struct {
		N int `json:"b"`
	}{1}] = "tag b"
	m[struct{ N int }{1}] = "no tag"
	println("len after 3 inserts of 3 different key types:", len(m))
	check("three struct types that differ in their tags are three keys", len(m) == 3)
	check("lookup tag a", m[struct {
		N int `json:"a"`
	}{1}] == "tag a")
	check("lookup no tag", m[struct{ N int }{1}] == "no tag")
	delete(m, struct {
		N int `json:"b"`
	}{1})
	_, ok := m[struct{ N int }{1}]
	check("deleting the `b` key leaves the untagged key", ok && len(m) == 2)
	n := 0
	for range m {
		n++
	}
	check("range yields both remaining entries", n == 2)

	// struct{ A } and struct{ X } (X an alias of A) have different field names.
	e := map[any]int{}
	e[struct{ A }{A{1}}] = 1
	e[struct{ X }{A{1}}] = 2
	println("len after 2 inserts of 2 different key types:", len(e))
	check("embedded field named through an alias is a different type", len(e) == 2 && e[struct{ A }{A{1}}] == 1)

	if fails == 0 {
		println("OK")
	}
}
