package main

// A map whose element type is a func type loses the captured variables of
// the stored closures as soon as the map grows (9th entry).

type Handler func(int) int

// call runs a closure taken out of a map. With the defect the closure has lost
// its context pointer, so reading a captured variable is a nil dereference and
// the program dies here.
func call(f func(int) int, x int) (r int, ok bool) {
	return f(x), true
}

func main() {
	fails := 0
	m := map[int]func(int) int{}
	for i := 0; i < 9; i++ {
		m[i] = func(x int) int { return x + i } // captures i
		bad := 0
		for q := 0; q <= i; q++ {
			f, ok := m[q]
			if !ok || f == nil {
				bad++
				continue
			}
			if r, ok := call(f, 100); !ok || r != 100+q {
				bad++
			}
		}
		println("entries:", len(m), "broken closures:", bad)
		fails += bad
	}

	// named func type, string keys, more growth steps
	h := map[string]Handler{}
	for i := 0; i < 100; i++ {
		h[string(rune('A'+i))] = func(x int) int { return x * i }
	}
	bad := 0
	for i := 0; i < 100; i++ {
		if r, ok := call(h[string(rune('A'+i))], 3); !ok || r != 3*i {
			bad++
		}
	}
	println("named func type, 100 entries, broken closures:", bad)
	fails += bad

	// range must yield the stored closures as well
	bad = 0
	for k, f := range m {
		if r, ok := call(f, 0); !ok || r != k {
			bad++
		}
	}
	println("range, broken closures:", bad)
	fails += bad

	if fails == 0 {
		println("OK")
	} else {
		println("FAIL")
	}
}
