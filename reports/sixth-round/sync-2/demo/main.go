package main

import (
	"runtime"
	"sync"
)

// trySend is the usual "notify if somebody is listening" idiom.
func trySend(ch chan int, v int) bool {
	select {
	case ch <- v:
		return true
	default:
		return false
	}
}

func main() {
	work := make(chan int) // unbuffered
	quit := make(chan int)
	got := make(chan int, 1)
	var started sync.WaitGroup
	started.Add(1)
	// A worker that waits for work or for quit - blocked in a select.
	go func() {
		started.Done()
		select {
		case v := <-work:
			got <- v
		case <-quit:
			got <- -1
		}
	}()
	started.Wait()

	// The worker is (or very soon will be) blocked in its select with the
	// receive on work pending, so the send case is ready and default must
	// not be taken for ever.
	sent := false
	tries := 0
	for tries < 500000 && !sent {
		sent = trySend(work, 7)
		if !sent {
			tries++
			runtime.Gosched()
		}
	}
	if !sent {
		println("BAD: select took default", tries, "times although a receiver is blocked in a select on the channel")
		close(quit)
		println("worker got", <-got)
		return
	}
	if v := <-got; v != 7 {
		println("BAD: worker got", v)
		return
	}
	println("OK")
}
