package main

import "runtime"

func main() {
	println("cpus == 4242:", runtime.NumCPU() == 4242)
}
