#!/bin/bash
# C13 demo: the C files of an "alt" package (the llgo replacement of a standard
# library package, here runtime/internal/lib/runtime with
# LLGoFiles = "_wrap/runtime.c; _wrap/debugtrap.c") are compiled into the cached
# archive of the patched package ("runtime"), but are not in its fingerprint.
# The demo works on a private copy of <llgo-root>/runtime, so the llgo tree is
# not touched.
# usage: demo.sh [llgo-binary [llgo-root]]     prints OK or FAIL   (takes 2-3 minutes: the
# standard library packages behind "runtime" are compiled twice)
set -u
HERE=$(cd "$(dirname "$0")" && pwd)
LLGO=$(readlink -f "${1:-${LLGO:-/tmp/hunt6-build/llgo}}")
ROOT=$(readlink -f "${2:-${LLGO_ROOT:-/tmp/wt-w6c}}")
W=$(mktemp -d /tmp/hunt6-demo6-XXXXXX)
trap 'rm -rf "$W"' EXIT
cp -a "$HERE/demo" "$W/demo"
mkdir -p "$W/home" "$W/tmp" "$W/root"
cp -a "$ROOT/runtime" "$W/root/runtime"
CFILE="$W/root/runtime/internal/lib/runtime/_wrap/runtime.c"

# -O0: this sandbox's LLVM 14 miscompiles some std code at -O2.
# LDFLAGS=-Wl,--start-group: this sandbox links with GNU ld instead of lld; GNU ld
# resolves archives strictly left to right, and llgo's link order does not know
# that the alt runtime package calls into sync (lld does not care).
llgo() {
	local cache=$1; shift
	( cd "$W/demo" && env -i PATH=/usr/lib/go-1.23/bin:/usr/bin:/bin HOME="$W/home" TMPDIR="$W/tmp" \
		LLGO_ROOT="$W/root" LLVM_CONFIG=/tmp/llgo-tools/shim/bin/llvm-config GOTOOLCHAIN=local \
		GOFLAGS=-mod=mod GOPROXY=off GOWORK=off XDG_CACHE_HOME="$cache" LDFLAGS=-Wl,--start-group \
		GOCACHE=/root/.cache/go-build GOMODCACHE=/root/go/pkg/mod "$LLGO" "$@" ) 2>&1
}
hit() { grep -E "^CACHE (HIT|MISS): runtime$" | tr '\n' ' '; }

echo "== step 1: build with the original _wrap/runtime.c (llgo_maxprocs asks sysconf)"
llgo "$W/cache" build -O0 -v -o "$W/out1" . > "$W/log1" || { tail -30 "$W/log1"; echo "FAIL (build error)"; exit 2; }
hit < "$W/log1"; r1=$("$W/out1" 2>&1); echo "-> $r1"

echo "== step 2: make llgo_maxprocs() in _wrap/runtime.c return 4242 and rebuild"
sleep 1
sed -i 's/return (int)sysconf(_SC_NPROCESSORS_ONLN);/return 4242;/' "$CFILE"
grep -q 'return 4242;' "$CFILE" || { echo "FAIL (could not edit $CFILE)"; exit 2; }
llgo "$W/cache" build -O0 -v -o "$W/out2" . > "$W/log2" || { tail -30 "$W/log2"; echo "FAIL (build error)"; exit 2; }
hit < "$W/log2"; r2=$("$W/out2" 2>&1); echo "-> $r2"

echo "== reference: clean build of the edited tree (other cache directory)"
llgo "$W/cache-ref" build -O0 -v -o "$W/out3" . > "$W/log3" || { tail -30 "$W/log3"; echo "FAIL (build error)"; exit 2; }
r3=$("$W/out3" 2>&1); echo "-> $r3"

if [ "$r1" != "cpus == 4242: false" ] || [ "$r3" != "cpus == 4242: true" ]; then echo "FAIL (unexpected reference output)"; exit 2; fi
if [ "$r2" = "$r3" ]; then echo OK; else echo "FAIL: after the edit of the alt package's C file the cached archive of 'runtime' was reused: got '$r2', a clean build gives '$r3'"; exit 1; fi
