//go:build !llgo
// +build !llgo

package crosscompile

import (
	"archive/tar"
	"bytes"
	"compress/gzip"
	"os"
	"os/exec"
	"path/filepath"
	"testing"
)

func ufWrite(t *testing.T, path string, hdrs []*tar.Header, data []string) {
	var buf bytes.Buffer
	gzw := gzip.NewWriter(&buf)
	tw := tar.NewWriter(gzw)
	for i, h := range hdrs {
		h.Size = int64(len(data[i]))
		h.Mode = 0644
		if err := tw.WriteHeader(h); err != nil {
			t.Fatal(err)
		}
		tw.Write([]byte(data[i]))
	}
	tw.Close()
	gzw.Close()
	os.WriteFile(path, buf.Bytes(), 0644)
}

// A "contiguous file" entry (typeflag '7') is a regular file with data; tar(1)
// extracts it as one. extractTarGz drops it without an error.
func TestUnchangedContiguousFileDropped(t *testing.T) {
	dir := t.TempDir()
	arc, dest := filepath.Join(dir, "a.tar.gz"), filepath.Join(dir, "out")
	os.Mkdir(dest, 0755)
	ufWrite(t, arc, []*tar.Header{
		{Name: "a.txt", Typeflag: tar.TypeReg},
		{Name: "b.txt", Typeflag: tar.TypeCont},
	}, []string{"aaa", "bbb"})
	if err := extractTarGz(arc, dest); err != nil {
		t.Fatalf("extract: %v", err)
	}
	if got, err := os.ReadFile(filepath.Join(dest, "b.txt")); err != nil || string(got) != "bbb" {
		t.Errorf("b.txt (typeflag '7'): got %q, %v", got, err)
	}
	ref := filepath.Join(dir, "ref")
	os.Mkdir(ref, 0755)
	out, _ := exec.Command("tar", "-xzf", arc, "-C", ref).CombinedOutput()
	got, err := os.ReadFile(filepath.Join(ref, "b.txt"))
	t.Logf("tar(1) for comparison: b.txt = %q, %v %s", got, err, out)
}

// `tar cf x.tar a ./a` with a having two links stores the second mention as a
// hard link "./a" -> "a". tar(1) extracts that; extractTarGz removes the file
// it is about to link to and fails.
func TestUnchangedHardLinkToItself(t *testing.T) {
	dir := t.TempDir()
	arc, dest := filepath.Join(dir, "a.tar.gz"), filepath.Join(dir, "out")
	os.Mkdir(dest, 0755)
	ufWrite(t, arc, []*tar.Header{
		{Name: "a", Typeflag: tar.TypeReg},
		{Name: "./a", Typeflag: tar.TypeLink, Linkname: "a"},
	}, []string{"aaa", ""})
	if err := extractTarGz(arc, dest); err != nil {
		t.Errorf("extract: %v", err)
	}
	if got, err := os.ReadFile(filepath.Join(dest, "a")); err != nil || string(got) != "aaa" {
		t.Errorf("a: got %q, %v", got, err)
	}
	ref := filepath.Join(dir, "ref")
	os.Mkdir(ref, 0755)
	out, rerr := exec.Command("tar", "-xzf", arc, "-C", ref).CombinedOutput()
	got, err := os.ReadFile(filepath.Join(ref, "a"))
	t.Logf("tar(1) for comparison: exit %v, a = %q, %v %s", rerr, got, err, out)
}
