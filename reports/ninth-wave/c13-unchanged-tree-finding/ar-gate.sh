#!/bin/bash
# LLGO_AR wrapper of builder A: before the archive of demo/cdep is made (its C side file
# has been compiled already), wait until builder B has finished.
case "$*" in
*side.c.o*) touch "$GATE/A-compiled-cdep"
     for i in $(seq 1 3000); do [ -e "$GATE/B-done" ] && break; sleep 0.1; done ;;
esac
exec /usr/bin/ar "$@"
