#include "side.h"

#ifndef VARIANT
#define VARIANT 0
#endif

int cdep_optimize(void) {
#ifdef __OPTIMIZE__
	return 1;
#else
	return 0;
#endif
}

int cdep_variant(void) { return VARIANT; }

int cdep_header(void) { return SIDE_H_VALUE; }
