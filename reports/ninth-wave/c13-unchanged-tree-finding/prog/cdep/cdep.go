package cdep

import _ "unsafe"

const (
	LLGoFiles   = "_wrap/side.c"
	LLGoPackage = "link"
)

//go:linkname Optimize C.cdep_optimize
func Optimize() int32

//go:linkname Variant C.cdep_variant
func Variant() int32

//go:linkname Header C.cdep_header
func Header() int32
