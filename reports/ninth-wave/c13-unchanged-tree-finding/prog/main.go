package main

import "demo/cdep"

func main() {
	println("optimize:", cdep.Optimize(), "variant:", cdep.Variant(), "header:", cdep.Header())
}
