module demo

go 1.23
