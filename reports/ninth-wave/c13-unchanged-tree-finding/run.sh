#!/bin/bash
# run.sh <llgo-binary> <LLGO_ROOT worktree> <work-dir>
# Two builders on one module, one build cache (and one Go cache): A at -O0, B at -O2.
# A is held between compiling cdep's C side file and archiving the package; B runs in between.
HERE=$(dirname "$(readlink -f "$0")")
LLGO=$(readlink -f "$1"); WT=$(readlink -f "$2"); W=$3
rm -rf "$W"; mkdir -p "$W/gate" "$W/tmp"; W=$(readlink -f "$W")
cp -r "$HERE/prog" "$W/prog"
export LLGO_CACHE_DIR=$W/cache GATE=$W/gate TMPDIR=$W/tmp
R="/tmp/llgo-tools/run-llgo.sh $LLGO $WT $W/prog"
$R -O0 > "$W/warm0.log" 2>&1; $R -O2 > "$W/warm2.log" 2>&1
echo "// edited" >> "$W/prog/cdep/_wrap/side.c"
LLGO_AR=$HERE/ar-gate.sh $R -O0 > "$W/A.log" 2>&1 &
for i in $(seq 1 3000); do [ -e "$GATE/A-compiled-cdep" ] && break; sleep 0.1; done
( cd "$W/prog" && export LLGO_ROOT=$WT LLVM_CONFIG=/tmp/llgo-tools/shim/bin/llvm-config PATH=/usr/lib/go-1.23/bin:$PATH GOTOOLCHAIN=local GOFLAGS=-mod=mod GOPROXY=off GOWORK=off XDG_CACHE_HOME=$LLGO_CACHE_DIR && "$LLGO" build -O2 -o "$W/progB.out" . && "$W/progB.out" ) > "$W/B.log" 2>&1
touch "$GATE/B-done"; wait
$R -O0 > "$W/later.log" 2>&1
echo "builder A (-O0):            $(grep optimize: "$W/A.log")"
echo "builder B (-O2):            $(grep optimize: "$W/B.log")"
echo "later build at -O0 (alone): $(grep optimize: "$W/later.log")"
grep -q "optimize: 0" "$W/A.log" && grep -q "optimize: 0" "$W/later.log" && { echo "DEMO PASS"; exit 0; }
echo "DEMO FAIL: -O0 builds run C code compiled at -O2 (entry stored under the -O0 key holds B's object)"; exit 1
