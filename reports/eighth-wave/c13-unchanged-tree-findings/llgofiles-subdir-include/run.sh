#!/bin/bash
# run.sh [llgo-binary] [LLGO_ROOT]   (defaults: /tmp/llgo-tools/llgo-head /repo) - UNCHANGED tree finding.
# demo/w compiles _wrap/w.c (LLGoFiles), which #includes "inc/v.h" from a sub-directory. pkgLLGoFiles only adds the
# regular files that sit directly next to the C source, so editing inc/v.h does not change the fingerprint.
LLGO=$(readlink -f "${1:-/tmp/llgo-tools/llgo-head}"); ROOT=$(readlink -f "${2:-/repo}")
HERE=$(cd "$(dirname "$0")" && pwd)
W=$(mktemp -d /tmp/w8/d/subinc-work-XXXXXX); trap 'rm -rf "$W"' EXIT
cp -r "$HERE/prog" "$W/prog"
build() { /tmp/llgo-tools/run-llgo.sh "$LLGO" "$ROOT" "$W/prog" -O0 2>&1 | grep -v '^WARNING conda'; }
echo "== step 1: clean build"; build
echo "== step 2: w/_wrap/inc/v.h: W_VALUE 1 -> 2, rebuild"
sed -i 's/W_VALUE 1/W_VALUE 2/' "$W/prog/w/_wrap/inc/v.h"; build | tee "$W/out2"
echo "== step 3: cache cleared (reference)"; rm -rf "$W/prog/.cache"; build | tee "$W/out3"
cmp -s "$W/out2" "$W/out3" && { echo "RESULT: OK"; exit 0; }
echo "RESULT: STALE"; exit 1
