package main

import "demo/w"

func main() {
	println("value:", w.Value())
}
