package w

import _ "unsafe"

const (
	LLGoFiles   = "_wrap/w.c"
	LLGoPackage = "link"
)

//go:linkname Value C.w_value
func Value() int32
