#include "inc/v.h"
int w_value(void) { return W_VALUE; }
