#define W_VALUE 1
