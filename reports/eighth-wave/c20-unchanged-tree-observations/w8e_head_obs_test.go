//go:build !llgo

package crosscompile

import (
	"archive/tar"
	"bytes"
	"compress/gzip"
	"net/http"
	"net/http/httptest"
	"os"
	"path/filepath"
	"testing"
)

type w8eObsEnt struct {
	typ      byte
	name     string
	linkname string
	body     string
}

func w8eObsTarGz(t *testing.T, entries []w8eObsEnt) []byte {
	var buf bytes.Buffer
	gzw := gzip.NewWriter(&buf)
	tw := tar.NewWriter(gzw)
	for _, e := range entries {
		hdr := &tar.Header{Typeflag: e.typ, Name: e.name, Linkname: e.linkname, Mode: 0644}
		if e.typ == tar.TypeReg {
			hdr.Size = int64(len(e.body))
		}
		if err := tw.WriteHeader(hdr); err != nil {
			t.Fatal(err)
		}
		if e.typ == tar.TypeReg {
			tw.Write([]byte(e.body))
		}
	}
	tw.Close()
	gzw.Close()
	return buf.Bytes()
}

// Observation 1 (unchanged tree): a regular entry whose name was created
// earlier as a hard link is written with O_TRUNC through the shared inode, so
// the other name changes too. tar (GNU, bsdtar) unlinks first: a stays "AAA".
func TestW8EObsDuplicateOfHardLinkName(t *testing.T) {
	dir := t.TempDir()
	archive := filepath.Join(dir, "in.tar.gz")
	os.WriteFile(archive, w8eObsTarGz(t, []w8eObsEnt{
		{tar.TypeReg, "a", "", "AAA"},
		{tar.TypeLink, "b", "a", ""},
		{tar.TypeReg, "b", "", "BBB"}, // duplicate name b, later entry wins for b
	}), 0644)
	dest := filepath.Join(dir, "dest")
	os.Mkdir(dest, 0755)
	if err := extractTarGz(archive, dest); err != nil {
		t.Fatal(err)
	}
	a, _ := os.ReadFile(filepath.Join(dest, "a"))
	b, _ := os.ReadFile(filepath.Join(dest, "b"))
	t.Logf("a=%q b=%q", a, b)
	if string(a) != "AAA" || string(b) != "BBB" {
		t.Errorf("want a=AAA b=BBB")
	}
}

// Observation 2 (unchanged tree): the archive is downloaded INTO the directory
// it is unpacked into, so an entry that carries the archive's own file name
// truncates the archive while it is being read.
func TestW8EObsEntryNamedLikeTheArchive(t *testing.T) {
	var entries []w8eObsEnt
	entries = append(entries, w8eObsEnt{tar.TypeReg, "first.txt", "", "first"})
	entries = append(entries, w8eObsEnt{tar.TypeReg, "pkg.tar.gz", "", "an inner archive, shipped as data"})
	for i := 0; i < 2000; i++ {
		entries = append(entries, w8eObsEnt{tar.TypeReg, filepath.Join("more", string(rune('a'+i%26)), "f"+string(rune('0'+i%10))+".txt"), "", "payload payload payload"})
	}
	entries = append(entries, w8eObsEnt{tar.TypeReg, "last.txt", "", "last"})
	data := w8eObsTarGz(t, entries)
	server := httptest.NewServer(http.HandlerFunc(func(w http.ResponseWriter, r *http.Request) { w.Write(data) }))
	defer server.Close()
	dest := filepath.Join(t.TempDir(), "out")
	err := downloadAndExtractArchive(server.URL+"/pkg.tar.gz", dest, "obs")
	t.Logf("error: %v", err)
	if err != nil {
		t.Errorf("well-formed archive not unpacked")
		return
	}
	for _, n := range []string{"first.txt", "pkg.tar.gz", "last.txt"} {
		b, err := os.ReadFile(filepath.Join(dest, n))
		t.Logf("%s: %q %v", n, b, err)
		if err != nil {
			t.Errorf("%s missing", n)
		}
	}
}
