#!/bin/bash
# usage: run.sh [worktree]  -- runs the two observation tests against an UNCHANGED tree (both FAIL there)
WT=${1:-/tmp/wt-w8e}
HERE=$(cd "$(dirname "$0")" && pwd)
export GOFLAGS=-mod=mod GOPROXY=off GOSUMDB=off GOTOOLCHAIN=local
G=/root/go/pkg/mod/golang.org/toolchain@v0.0.1-go1.24.0.linux-amd64/bin/go
cp "$HERE/w8e_head_obs_test.go" "$WT/internal/crosscompile/"
trap 'rm -f "$WT/internal/crosscompile/w8e_head_obs_test.go"' EXIT
cd "$WT" && "$G" test ./internal/crosscompile/ -run 'TestW8EObs' -count=1 -v 2>&1 | grep -E 'obs_test|^ok|^FAIL|^--- '
