package main

func main() {
	ch := make(chan int, 1)
	close(ch)
	defer func() {
		if r := recover(); r != nil {
			println("panic as Go requires")
		}
	}()
	ch <- 1
	println("send on closed channel returned normally; len", len(ch))
	u := make(chan int)
	close(u)
	u <- 1
	println("send on closed unbuffered channel returned normally")
	select {
	case u <- 2:
		println("select send on closed channel committed")
	default:
		println("select send on closed channel: default taken (Go panics instead)")
	}
}
