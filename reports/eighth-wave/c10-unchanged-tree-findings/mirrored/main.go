package main

import "unsafe"

func addr(c chan int) uintptr { return *(*uintptr)(unsafe.Pointer(&c)) }

// R: select { lo <- 1 ; <-hi }   (nobody ever receives from lo)
// S: select { hi <- 2 ; <-idle } (nobody ever sends on idle)
// In Go, S's send on hi pairs with R's receive from hi.
func main() {
	x, y := make(chan int), make(chan int)
	lo, hi := x, y
	if addr(lo) > addr(hi) {
		lo, hi = hi, lo
	}
	idle := make(chan int)
	done := make(chan int, 2)
	go func() {
		select {
		case lo <- 1:
			done <- -1
		case v := <-hi:
			done <- v
		}
	}()
	go func() {
		select {
		case hi <- 2:
			done <- 20
		case <-idle:
			done <- -2
		}
	}()
	a, b := <-done, <-done
	println("completed", a, b)
}
