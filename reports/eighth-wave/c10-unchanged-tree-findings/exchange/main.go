package main

// Two goroutines each offer to send on or receive from the same unbuffered
// channel. In Go one of them sends and the other receives.
func main() {
	ch := make(chan int)
	done := make(chan int, 2)
	for id := 1; id <= 2; id++ {
		go func(id int) {
			select {
			case ch <- id:
				done <- id
			case v := <-ch:
				done <- 10 * v
			}
		}(id)
	}
	a, b := <-done, <-done
	println("exchange completed", a, b)
}
