#!/bin/bash
# Unchanged tree: /tmp/llgo-tools/llgo-head with /repo.
HERE=$(cd "$(dirname "$0")" && pwd)
W=/tmp/w8/c/scratch/run-itab; rm -rf $W; mkdir -p $W; cp $HERE/main.go $HERE/go.mod $W/
/tmp/llgo-tools/run-llgo.sh /tmp/llgo-tools/llgo-head /repo $W -O0 2>&1 | tail -8
