package main

import ("sync"; "sync/atomic")

type I interface{ M() int }

type T0 struct{ v int }
func (t T0) M() int { return t.v + 0 }
type T1 struct{ v int }
func (t T1) M() int { return t.v + 1 }
type T2 struct{ v int }
func (t T2) M() int { return t.v + 2 }
type T3 struct{ v int }
func (t T3) M() int { return t.v + 3 }
type T4 struct{ v int }
func (t T4) M() int { return t.v + 4 }
type T5 struct{ v int }
func (t T5) M() int { return t.v + 5 }
type T6 struct{ v int }
func (t T6) M() int { return t.v + 6 }
type T7 struct{ v int }
func (t T7) M() int { return t.v + 7 }
type T8 struct{ v int }
func (t T8) M() int { return t.v + 8 }
type T9 struct{ v int }
func (t T9) M() int { return t.v + 9 }
type T10 struct{ v int }
func (t T10) M() int { return t.v + 10 }
type T11 struct{ v int }
func (t T11) M() int { return t.v + 11 }
type T12 struct{ v int }
func (t T12) M() int { return t.v + 12 }
type T13 struct{ v int }
func (t T13) M() int { return t.v + 13 }
type T14 struct{ v int }
func (t T14) M() int { return t.v + 14 }
type T15 struct{ v int }
func (t T15) M() int { return t.v + 15 }
type T16 struct{ v int }
func (t T16) M() int { return t.v + 16 }
type T17 struct{ v int }
func (t T17) M() int { return t.v + 17 }
type T18 struct{ v int }
func (t T18) M() int { return t.v + 18 }
type T19 struct{ v int }
func (t T19) M() int { return t.v + 19 }
type T20 struct{ v int }
func (t T20) M() int { return t.v + 20 }
type T21 struct{ v int }
func (t T21) M() int { return t.v + 21 }
type T22 struct{ v int }
func (t T22) M() int { return t.v + 22 }
type T23 struct{ v int }
func (t T23) M() int { return t.v + 23 }
var convs = []func() I{
	func() I { return T0{7} },
	func() I { return T1{7} },
	func() I { return T2{7} },
	func() I { return T3{7} },
	func() I { return T4{7} },
	func() I { return T5{7} },
	func() I { return T6{7} },
	func() I { return T7{7} },
	func() I { return T8{7} },
	func() I { return T9{7} },
	func() I { return T10{7} },
	func() I { return T11{7} },
	func() I { return T12{7} },
	func() I { return T13{7} },
	func() I { return T14{7} },
	func() I { return T15{7} },
	func() I { return T16{7} },
	func() I { return T17{7} },
	func() I { return T18{7} },
	func() I { return T19{7} },
	func() I { return T20{7} },
	func() I { return T21{7} },
	func() I { return T22{7} },
	func() I { return T23{7} },
}

func main() {
	bad := 0
	// control: the last 4 types are converted serially first; they never show the problem
	for i := len(convs) - 4; i < len(convs); i++ {
		convs[i]()
	}
	for i := range convs {
		var gate int32
		var wg sync.WaitGroup
		res := make([]I, 4)
		for g := 0; g < 4; g++ {
			wg.Add(1)
			go func(g int) {
				defer wg.Done()
				atomic.AddInt32(&gate, 1)
				for atomic.LoadInt32(&gate) < 4 {
				}
				res[g] = convs[i]()
			}(g)
		}
		wg.Wait()
		m := map[I]int{}
		for g := 0; g < 4; g++ {
			m[res[g]] = g
		}
		if len(m) != 1 {
			bad++
			println("type", i, ": 4 equal interface values became", len(m), "distinct map keys; res[0]==res[1]:", res[0] == res[1], res[0] == res[2], res[0] == res[3])
		}
	}
	println("types with duplicate keys:", bad, "of", len(convs))
}
