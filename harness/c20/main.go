// C20: SDK archive extraction.  Runs the real internal/crosscompile/fetch.go
// (lifted; os / flock / http / exec calls go through the simulated OS seam) as
// 1-4 concurrent "processes" requesting the same destination, with hostile
// archives, network and disk faults and process crashes.
package main

import (
	"archive/tar"
	"archive/zip"
	"bytes"
	"compress/gzip"
	"crypto/sha256"
	"encoding/json"
	"fmt"
	"os"
	"os/exec"
	"path"
	"path/filepath"
	"sort"
	"strings"

	"verif/driver"
	"verif/lifted/fetchrt"
	"verif/sim"
	"verif/sim/simos"
)

type Entry struct {
	Name string `json:"name"`
	T    string `json:"t"` // f d l(symlink) h(hard link) c(contiguous file: tar type '7', a regular file)
	Len  int    `json:"len,omitempty"`
	Fill int    `json:"fill,omitempty"`
	Link string `json:"link,omitempty"`
}

type Req struct {
	Faults  []simos.Fault `json:"faults,omitempty"`
	CrashAt int           `json:"crash_at,omitempty"` // sim point at which the process dies (0 = never)
}

type Scenario struct {
	Kind    string     `json:"kind"`   // lib esp wasi
	Sub     string     `json:"sub"`    // lib: internal archive sub directory ("" = whole archive)
	Format  string     `json:"format"` // tgz txz zip
	Entries []Entry    `json:"entries"`
	Reqs    []Req      `json:"reqs"`
	Debris  []string   `json:"debris,omitempty"` // leftovers of earlier crashed requests: temp extract extracttemp lock
	Cfg     sim.Config `json:"cfg"`
}

type prop struct{}

func (prop) ID() string { return "C20" }

func (prop) Decode(b []byte) (driver.Scenario, error) {
	var sc Scenario
	err := json.Unmarshal(b, &sc)
	return &sc, err
}

var haveXz = func() bool { _, err := exec.LookPath("xz"); return err == nil }()

func fileData(e Entry) []byte {
	b := make([]byte, e.Len)
	for i := range b {
		b[i] = byte(e.Fill + i*7 + i/251)
	}
	return b
}

// ---- generation ------------------------------------------------------------------

func (prop) Generate(rng *sim.Rng, tier string, runIndex int) driver.Scenario {
	sc := &Scenario{}
	// external processes (xz to build, tar to extract) cost ~10 ms each here:
	// the .tar.xz format gets a small share of the runs
	switch r := rng.Intn(40); {
	case r == 0:
		sc.Kind, sc.Format = "esp", "txz"
	case r < 6:
		sc.Kind, sc.Format = "wasi", "tgz"
	default:
		sc.Kind = "lib"
		sc.Format = []string{"tgz", "zip"}[rng.Intn(2)]
		if rng.Intn(30) == 0 {
			sc.Format = "txz"
		}
		if rng.Intn(3) == 0 {
			sc.Sub = "pkg"
		}
	}
	if sc.Format == "txz" && !haveXz {
		sc.Kind, sc.Format, sc.Sub = "lib", "tgz", ""
	}
	top := ""
	switch sc.Kind {
	case "esp":
		top = "esp-clang/"
	case "wasi":
		top = fetchrt.WasiSubdir + "/"
	case "lib":
		if sc.Sub != "" {
			top = sc.Sub + "/"
		}
	}
	hostile := rng.Intn(3) == 0
	odd := rng.Intn(4) == 0
	n := rng.Range(1, 7)
	if tier == "thorough" && rng.Intn(4) == 0 {
		n = rng.Range(5, 20)
	}
	dirs := []string{"", "bin/", "lib/", "lib/gcc/", "include/sys/", ".config/", "lib/.cache/"}
	names := []string{"a", "b.txt", "tool", "libc.a", "stdio.h", "README", ".hidden", "..data", "a.", "index"}
	explicitDirs := rng.Bool()
	dotSlash := rng.Intn(4) == 0
	if top != "" && explicitDirs {
		sc.Entries = append(sc.Entries, Entry{Name: top, T: "d"})
	}
	if dotSlash && rng.Bool() {
		sc.Entries = append([]Entry{{Name: "./", T: "d"}}, sc.Entries...)
	}
	seenDir := map[string]bool{}
	for i := 0; i < n; i++ {
		d := dirs[rng.Intn(len(dirs))]
		nm := top + d + names[rng.Intn(len(names))]
		if explicitDirs && d != "" && !seenDir[d] {
			seenDir[d] = true
			// all ancestors
			parts := strings.Split(strings.TrimSuffix(d, "/"), "/")
			acc := top
			for _, p := range parts {
				acc += p + "/"
				sc.Entries = append(sc.Entries, Entry{Name: pre(dotSlash, acc), T: "d"})
			}
		}
		ln := rng.Intn(300)
		switch rng.Intn(8) {
		case 0:
			ln = 0
		case 1:
			ln = rng.Range(30000, 66000)
		}
		sc.Entries = append(sc.Entries, Entry{Name: pre(dotSlash, nm), T: "f", Len: ln, Fill: rng.Intn(256)})
	}
	if odd {
		switch rng.Intn(11) {
		case 9:
			// a regular file stored as a "contiguous file" (tar type '7'): same thing as far as
			// its name and bytes go; tar(1) extracts it as a regular file
			sc.Entries = append(sc.Entries, Entry{Name: top + "contig.bin", T: "c", Len: rng.Range(1, 400), Fill: 0x37})
		case 10:
			// a second name of a file that, once cleaned, is its first name (what
			// `tar cf x.tar a ./a` stores when a has two links): nothing to do, and
			// certainly nothing to remove
			sc.Entries = append(sc.Entries, Entry{Name: top + "a", T: "f", Len: rng.Range(1, 200), Fill: rng.Intn(256)}, Entry{Name: "./" + top + "a", T: "h", Link: top + "a"})
		case 7:
			// an entry that carries the archive's own file name (a release tarball that
			// ships the previous release's tarball, a zip that was zipped next to itself)
			an := map[string]string{"lib": "sdk-archive" + map[string]string{"tgz": ".tar.gz", "txz": ".tar.xz", "zip": ".zip"}[sc.Format], "esp": path.Base(fetchrt.ESPClangURL("linux-amd64")), "wasi": path.Base(fetchrt.WasiURL)}[sc.Kind]
			e := Entry{Name: an, T: "f", Len: rng.Range(1, 3000), Fill: 0x41}
			if rng.Bool() {
				sc.Entries = append([]Entry{e}, sc.Entries...)
			} else {
				sc.Entries = append(sc.Entries, e)
			}
		case 8:
			// two symbolic links that each stay inside the destination when their
			// target is read as text, and together lead out of it; then an entry
			// through the second one
			d := top + "k1/k2/k3/k4/k5/"
			sc.Entries = append(sc.Entries, Entry{Name: d + "x", T: "l", Link: "../../../.."}, Entry{Name: d + "y", T: "l", Link: "x/../../../.."})
			if rng.Intn(4) != 0 {
				sc.Entries = append(sc.Entries, Entry{Name: d + "y/chained.txt", T: "f", Len: 7, Fill: 0x43})
			}
		case 5:
			// names with backslashes: on this platform one path component, nothing
			// to split - an extractor that "normalises" them after its guard escapes
			bs := []string{"..\\..\\..\\..\\bs-evil", top + "..\\..\\..\\..\\..\\bs-evil2", "a\\..\\..\\..\\..\\bs-evil3", top + "dir\\file.txt"}[rng.Intn(4)]
			sc.Entries = append(sc.Entries, Entry{Name: bs, T: "f", Len: rng.Intn(40) + 1, Fill: 0x42})
		case 6:
			// a hard link to something outside the destination (the sibling tree's
			// file exists), sometimes followed by a regular entry of the same name
			// that would be written through it
			tgt := []string{"../../../../outside", "../sdk-other/keep.txt", "../../sdk-other/keep.txt", top + "../../sdk-other/keep.txt"}[rng.Intn(4)]
			sc.Entries = append(sc.Entries, Entry{Name: top + "alias", T: "h", Link: tgt})
			if rng.Bool() {
				sc.Entries = append(sc.Entries, Entry{Name: top + "alias", T: "f", Len: 5, Fill: 0x50})
			}
		case 0: // duplicate with different length: the last entry wins
			e := sc.Entries[len(sc.Entries)-1]
			sc.Entries = append(sc.Entries, Entry{Name: e.Name, T: "f", Len: e.Len / 2, Fill: e.Fill + 1})
		case 1: // file-vs-directory clash
			sc.Entries = append(sc.Entries, Entry{Name: top + "clash", T: "f", Len: 3}, Entry{Name: top + "clash/x", T: "f", Len: 3})
		case 2:
			// a link entry, sometimes followed by an entry whose path goes through it
			// (every NAME passes a prefix check; honouring the link would not)
			tgt := []string{"a", "../../../../outside", "../../sdk-other", "."}[rng.Intn(4)]
			sc.Entries = append(sc.Entries, Entry{Name: top + "link", T: "l", Link: tgt})
			if rng.Bool() {
				sc.Entries = append(sc.Entries, Entry{Name: top + "link/through.txt", T: "f", Len: 5, Fill: 0x54})
			} else if rng.Bool() {
				sc.Entries = append(sc.Entries, Entry{Name: top + "link", T: "f", Len: 6, Fill: 0x55})
			}
		case 3:
			// a further name (hard link) of a regular file; then perhaps one of the two
			// names once more as a regular file of its own: it replaces that name and
			// must leave the other one alone
			if rng.Bool() {
				sc.Entries = append(sc.Entries, Entry{Name: top + "a", T: "f", Len: rng.Range(1, 200), Fill: rng.Intn(256)})
			}
			sc.Entries = append(sc.Entries, Entry{Name: top + "hard", T: "h", Link: top + "a"})
			switch rng.Intn(3) {
			case 1:
				sc.Entries = append(sc.Entries, Entry{Name: top + "hard", T: "f", Len: rng.Range(1, 200), Fill: 0x48})
			case 2:
				sc.Entries = append(sc.Entries, Entry{Name: top + "a", T: "f", Len: rng.Range(1, 200), Fill: 0x49})
			}
		case 4:
			sc.Entries = append(sc.Entries, Entry{Name: "", T: "f", Len: 2})
		}
	}
	if hostile {
		ups := strings.Repeat("../", rng.Range(1, 5))
		// sibling names that share a textual prefix with the extraction directory
		// (a guard comparing un-separated prefixes lets them through)
		sib := "../sdk" + []string{".temp-evil", ".extract.temp2", ".extractX", "X", ".temp.d"}[rng.Intn(5)] + "/evil4"
		if rng.Intn(3) == 0 {
			// the same for the directory the tree is unpacked into since the F24 repair
			sib = "../tree" + []string{"2", "X", "-evil", ".d"}[rng.Intn(4)] + "/evil4"
		}
		h := []string{ups + "evil", "x/" + ups + "../evil", top + ups + "../evil2", "/verif-c20-abs/evil", "lib/../../" + ups + "evil3", ups, sib, "a/../" + sib}[rng.Intn(8)]
		e := Entry{Name: h, T: "f", Len: rng.Intn(50) + 1, Fill: 0x45}
		if strings.HasSuffix(h, "/") {
			e = Entry{Name: h + "evildir/", T: "d"}
		}
		at := rng.Intn(len(sc.Entries) + 1)
		sc.Entries = append(sc.Entries[:at], append([]Entry{e}, sc.Entries[at:]...)...)
	}
	nr := rng.Range(1, 4)
	faulty := rng.Bool()
	for i := 0; i < nr; i++ {
		var r Req
		if faulty && rng.Bool() {
			for k, nf := 0, rng.Range(1, 2); k < nf; k++ {
				switch rng.Intn(9) {
				case 0, 1:
					r.Faults = append(r.Faults, simos.Fault{K: "fserr", At: rng.Intn(40), Arg: rng.Intn(3)})
				case 2:
					r.Faults = append(r.Faults, simos.Fault{K: "shortwrite", At: rng.Intn(40)})
				case 3, 4:
					r.CrashAt = rng.Range(2, 80)
				case 5:
					r.Faults = append(r.Faults, simos.Fault{K: "net-connect", At: -1})
				case 6:
					r.Faults = append(r.Faults, simos.Fault{K: "net-status", At: -1})
				case 7:
					r.Faults = append(r.Faults, simos.Fault{K: []string{"net-bodyerr", "net-truncate"}[rng.Intn(2)], At: -1, Arg: rng.Intn(100000)})
				case 8:
					r.Faults = append(r.Faults, simos.Fault{K: "net-flip", At: -1, Arg: rng.Intn(100000)})
				}
			}
		}
		sc.Reqs = append(sc.Reqs, r)
	}
	if rng.Intn(6) == 0 {
		// the scenario every lock-protocol defect so far has needed: three or four
		// requests of which an early one fails or dies (so that the lock file changes
		// hands and perhaps identity while others wait for it) - a good share of the
		// runs, with a small archive so that the schedule is what varies
		sc.Reqs = nil
		for i, n := 0, rng.Range(3, 4); i < n; i++ {
			var r Req
			if i == 0 || (i == 1 && rng.Intn(4) == 0) {
				switch rng.Intn(4) {
				case 0:
					r.Faults = append(r.Faults, simos.Fault{K: "net-status", At: -1})
				case 1:
					r.Faults = append(r.Faults, simos.Fault{K: "net-connect", At: -1})
				case 2:
					r.Faults = append(r.Faults, simos.Fault{K: "net-bodyerr", At: -1, Arg: rng.Intn(2000)})
				case 3:
					r.CrashAt = rng.Range(2, 40)
				}
			}
			sc.Reqs = append(sc.Reqs, r)
		}
		if len(sc.Entries) > 3 && !hostile {
			sc.Entries = sc.Entries[:3]
		}
	}
	if rng.Intn(8) == 0 {
		sc.Debris = append(sc.Debris, []string{"temp", "extract", "extracttemp", "lock"}[rng.Intn(4)])
	}
	if len(sc.Debris) > 0 && rng.Intn(3) == 0 && len(sc.Reqs) > 0 {
		// clearing away what the killed request left fails
		sc.Reqs[0].Faults = append(sc.Reqs[0].Faults, simos.Fault{K: "fserr-remove", At: -1, Arg: rng.Intn(3)})
	}
	if sc.Kind == "wasi" && rng.Intn(4) == 0 {
		// the SDK's parent directory is long-lived: it may hold another release
		// or the rest of a half-removed copy, without the wanted sub-directory
		sc.Debris = append(sc.Debris, "populated")
	}
	cfg := sim.Config{MaxSteps: 20000, LiveSteps: 20000}
	switch rng.Intn(4) {
	case 0, 1:
		cfg.Strategy = "uniform"
	case 2:
		cfg.Strategy = "runtoblock"
		cfg.PreemptP = []float64{0.02, 0.1, 0.3}[rng.Intn(3)]
	case 3:
		cfg.Strategy = "pct"
		cfg.PCTDepth = rng.Range(1, 3)
		cfg.PCTLen = rng.Range(30, 400)
	}
	sc.Cfg = cfg
	return sc
}

// topOf is the directory prefix the generated entries of a scenario live under.
func topOf(sc *Scenario) string {
	switch sc.Kind {
	case "esp":
		return "esp-clang/"
	case "wasi":
		return fetchrt.WasiSubdir + "/"
	}
	if sc.Sub != "" {
		return sc.Sub + "/"
	}
	return ""
}

const staleMark = "left by a killed request: an older version of the archive was being unpacked"

// plantStale fills a temporary directory with what a request killed while
// unpacking an older version of the archive leaves there.
func plantStale(root, top string) {
	if filepath.Base(root) != "tree" {
		// the directory the tree is unpacked into, wherever the code under test puts it
		plantStale(filepath.Join(root, "tree"), top)
	}
	os.MkdirAll(filepath.Join(root, top, "removed-upstream"), 0755)
	os.WriteFile(filepath.Join(root, top, "removed-upstream", "old.h"), []byte(staleMark), 0644)
	os.WriteFile(filepath.Join(root, top, "zz-old.txt"), []byte(staleMark), 0644)
}

func pre(dot bool, s string) string {
	if dot {
		return "./" + s
	}
	return s
}

// ---- archive construction and classification (independent of the code under test) ------------

type klass struct {
	hostile bool // some entry would escape the destination if taken literally
	illform bool // empty names, file/dir clashes, non-escaping ".." segments
	links   bool
}

func classify(sc *Scenario) (k klass, want map[string][]byte, wantDirs map[string]bool) {
	want = map[string][]byte{}
	wantDirs = map[string]bool{}
	isFile := map[string]bool{}
	linkNames := map[string]bool{}
	for _, e := range sc.Entries {
		if e.Name == "" {
			k.illform = true
			continue
		}
		if path.IsAbs(e.Name) {
			// re-rooted below the destination or rejected: both are fine
			k.illform = true
			continue
		}
		if strings.Contains(e.Name, "\\") {
			// a backslash is an ordinary character of a file name here: no requirement on
			// what an extractor makes of such a name, except that it stays inside
			k.illform = true
			continue
		}
		c := path.Clean("/d/" + e.Name)
		if c != "/d" && !strings.HasPrefix(c, "/d/") {
			k.hostile = true
			continue
		}
		if strings.Contains("/"+e.Name+"/", "/../") {
			k.illform = true
			continue
		}
		rel := strings.TrimPrefix(strings.TrimPrefix(c, "/d"), "/")
		// a path that is, or goes through, a link entry: what happens is up to the extractor
		for ln := range linkNames {
			if rel == ln || strings.HasPrefix(rel, ln+"/") {
				k.illform = true
			}
		}
		if e.T == "l" || e.T == "h" {
			selfLink := e.T == "h" && isFile[rel] && strings.TrimPrefix(path.Clean("/d/"+e.Link), "/d/") == rel
			if (isFile[rel] || wantDirs[rel]) && !selfLink {
				k.illform = true
			}
			linkNames[rel] = true
		}
		switch e.T {
		case "h":
			// a hard link must name a regular file that precedes it; then it is one
			// more name of that regular file (tool-chain archives use this: bin/clang-19
			// = bin/clang) and must be there with the same bytes.  Zip has no such entry.
			tgt := strings.TrimPrefix(path.Clean("/d/"+e.Link), "/d/")
			k.links = true
			if isFile[tgt] && rel == tgt {
				delete(linkNames, rel)
				continue // its own first name again: the file stays what it is
			}
			if !isFile[tgt] || rel == "" {
				k.illform = true
				continue
			}
			if sc.Format == "zip" {
				continue
			}
			want[rel] = want[tgt]
			isFile[rel] = true
			delete(linkNames, rel) // a regular file from here on
		case "l":
			k.links = true
			// a link whose target, read relative to the link's own directory, is not
			// strictly inside the destination may be refused: no requirement that the
			// request succeeds (confinement is asserted whatever happens)
			if t := path.Clean("/d/" + path.Dir(rel) + "/" + e.Link); path.IsAbs(e.Link) || !strings.HasPrefix(t, "/d/") {
				k.illform = true
			}
			continue
		case "d":
			if rel != "" {
				if isFile[rel] {
					k.illform = true
				}
				wantDirs[rel] = true
			}
		case "f", "c":
			if e.T == "c" && sc.Format == "zip" {
				continue // zip has no such entry type: not written into the archive
			}
			if rel == "" || wantDirs[rel] {
				k.illform = true
				continue
			}
			want[rel] = fileData(e)
			isFile[rel] = true
		}
		// every ancestor is a directory
		for p := path.Dir(rel); p != "." && p != "/" && p != ""; p = path.Dir(p) {
			if isFile[p] {
				k.illform = true
			}
			wantDirs[p] = true
		}
	}
	return
}

var archiveCache = map[[32]byte][]byte{}

func buildArchive(sc *Scenario) []byte {
	var buf bytes.Buffer
	switch sc.Format {
	case "zip":
		zw := zip.NewWriter(&buf)
		for _, e := range sc.Entries {
			h := &zip.FileHeader{Name: e.Name, Method: zip.Deflate}
			switch e.T {
			case "d":
				if !strings.HasSuffix(h.Name, "/") {
					h.Name += "/"
				}
				h.SetMode(os.ModeDir | 0755)
				zw.CreateHeader(h)
			case "l":
				h.SetMode(os.ModeSymlink | 0777)
				if w, err := zw.CreateHeader(h); err == nil {
					w.Write([]byte(e.Link))
				}
			case "h", "c":
			default:
				h.SetMode(0644)
				if w, err := zw.CreateHeader(h); err == nil {
					w.Write(fileData(e))
				}
			}
		}
		zw.Close()
		return buf.Bytes()
	}
	var tb bytes.Buffer
	tw := tar.NewWriter(&tb)
	for _, e := range sc.Entries {
		h := &tar.Header{Name: e.Name, Mode: 0644, Format: tar.FormatPAX}
		switch e.T {
		case "d":
			h.Typeflag, h.Mode = tar.TypeDir, 0755
			tw.WriteHeader(h)
		case "l":
			h.Typeflag, h.Linkname = tar.TypeSymlink, e.Link
			tw.WriteHeader(h)
		case "h":
			h.Typeflag, h.Linkname = tar.TypeLink, e.Link
			tw.WriteHeader(h)
		default:
			h.Typeflag = tar.TypeReg
			if e.T == "c" {
				h.Typeflag = tar.TypeCont
			}
			d := fileData(e)
			h.Size = int64(len(d))
			if tw.WriteHeader(h) == nil {
				tw.Write(d)
			}
		}
	}
	tw.Close()
	if sc.Format == "tgz" {
		gw := gzip.NewWriter(&buf)
		gw.Write(tb.Bytes())
		gw.Close()
		return buf.Bytes()
	}
	key := sha256.Sum256(tb.Bytes())
	if b, ok := archiveCache[key]; ok {
		return b
	}
	cmd := exec.Command("xz", "-0", "-c")
	cmd.Stdin = &tb
	out, err := cmd.Output()
	if err != nil {
		panic("xz failed: " + err.Error())
	}
	if len(archiveCache) > 2000 {
		archiveCache = map[[32]byte][]byte{}
	}
	archiveCache[key] = out
	return out
}

// ---- execution ---------------------------------------------------------------------

var sandboxReady bool

func sandboxBase() string {
	if st, err := os.Stat("/dev/shm"); err == nil && st.IsDir() {
		return "/dev/shm"
	}
	return os.TempDir()
}

type outcome struct {
	returned bool
	err      error
	inv, ret uint64
}

func (prop) Run(scx driver.Scenario, ch *sim.Choices, keep bool) *driver.Result {
	sc := scx.(*Scenario)
	s := sim.New(sc.Cfg, ch)
	s.KeepTrace = keep
	sim.S = s
	// one sandbox skeleton per worker process (directory-modifying system calls
	// are the bottleneck here); the part a run may touch is rebuilt for every run
	sb := filepath.Join(sandboxBase(), fmt.Sprintf("verif-c20-%d", os.Getpid()))
	deep := filepath.Join(sb, "l1", "l2", "l3", "l4", "l5", "l6")
	cache := filepath.Join(deep, "cache")
	dst := filepath.Join(cache, "sdk")
	canaries := map[string]string{
		filepath.Join(sb, "canary"):                     "outer",
		filepath.Join(deep, "canary"):                   "deep",
		filepath.Join(cache, "sdk-other", "keep.txt"):   "sibling",
		filepath.Join(sb, "l1", "l2", "l3", "canary-3"): "mid",
	}
	if !sandboxReady {
		os.RemoveAll(sb)
		os.MkdirAll(filepath.Join(cache, "sdk-other"), 0755)
		for p, c := range canaries {
			os.WriteFile(p, []byte(c), 0644)
		}
		sandboxReady = true
	}
	cleanup := func() {
		for _, suf := range []string{"", ".lock", ".temp", ".extract", ".extract.temp"} {
			if _, err := os.Lstat(dst + suf); err == nil {
				os.RemoveAll(dst + suf)
			}
		}
	}
	cleanup()
	dirty := false // something outside the per-run part was touched: rebuild the skeleton next time
	defer func() {
		cleanup()
		if dirty {
			os.RemoveAll(sb)
			sandboxReady = false
		}
	}()
	for _, d := range sc.Debris {
		switch d {
		case "temp":
			os.MkdirAll(dst+".temp/junk", 0755)
			os.WriteFile(dst+".temp/junk/partial", []byte("partial"), 0644)
			plantStale(dst+".temp", topOf(sc))
		case "extract":
			os.MkdirAll(dst+".extract/old", 0755)
			os.WriteFile(dst+".extract/old/partial", []byte("partial"), 0644)
		case "extracttemp":
			os.MkdirAll(dst+".extract.temp/old", 0755)
			plantStale(dst+".extract.temp", topOf(sc))
		case "lock":
			os.WriteFile(dst+".lock", nil, 0644)
		case "populated":
			os.MkdirAll(dst+"/older-release/bin", 0755)
			os.WriteFile(dst+"/older-release/bin/tool", []byte("older"), 0644)
		}
	}
	kl, want, wantDirs := classify(sc)
	archive := buildArchive(sc)
	ext := map[string]string{"tgz": ".tar.gz", "txz": ".tar.xz", "zip": ".zip"}[sc.Format]
	libURL := "https://sim.invalid/dl/sdk-archive" + ext

	// what the destination must contain once published
	sub := ""
	switch sc.Kind {
	case "esp":
		sub = "esp-clang"
	case "lib":
		sub = sc.Sub
	}
	expFiles := map[string][]byte{}
	expDirs := map[string]bool{}
	for n, d := range want {
		if sc.Kind == "wasi" && !strings.HasPrefix(n, fetchrt.WasiSubdir+"/") {
			continue // what is published is the SDK's own directory; entries beside it have no place in the destination
		}
		if sub == "" {
			expFiles[n] = d
		} else if strings.HasPrefix(n, sub+"/") {
			expFiles[strings.TrimPrefix(n, sub+"/")] = d
		}
	}
	for n := range wantDirs {
		if sc.Kind == "wasi" && n != fetchrt.WasiSubdir && !strings.HasPrefix(n, fetchrt.WasiSubdir+"/") {
			continue
		}
		if sub == "" {
			expDirs[n] = true
		} else if strings.HasPrefix(n, sub+"/") {
			expDirs[strings.TrimPrefix(n, sub+"/")] = true
		}
	}
	checkable := !kl.hostile && !kl.illform
	flipped := false
	for _, r := range sc.Reqs {
		for _, f := range r.Faults {
			if f.K == "net-flip" {
				// a corrupted download is a different archive, possibly a valid one
				// with other entry names: what it must contain, and whether it still
				// has an escaping entry, is unknown (confinement is still asserted)
				checkable = false
				flipped = true
			}
		}
	}
	// a request for an internal sub directory the archive does not have may fail
	mustSucceed := checkable
	if sub != "" && !wantDirs[sub] {
		mustSucceed = false
	}

	w := simos.NewWorld(s, sb)
	defer w.CloseAll() // runs before the clean-up above
	w.Serve = func(url string) ([]byte, bool) {
		switch sc.Kind {
		case "lib":
			return archive, url == libURL
		case "esp":
			return archive, url == fetchrt.ESPClangURL("linux-amd64")
		case "wasi":
			return archive, url == fetchrt.WasiURL
		}
		return nil, false
	}
	allowedRoots := []string{dst, dst + ".lock", dst + ".temp", dst + ".extract", dst + ".extract.temp"}
	under := func(p, root string) bool { return p == root || strings.HasPrefix(p, root+string(os.PathSeparator)) }
	w.Allowed = func(task int, p string) bool {
		for _, r := range allowedRoots {
			if under(p, r) {
				return true
			}
		}
		// creating (already existing) ancestors of the destination is harmless
		return under(dst, p)
	}
	published := false
	// what a request looks at to decide "already there": the destination, or for the
	// WASI SDK the SDK's own directory inside a long-lived parent
	pubPath := dst
	if sc.Kind == "wasi" {
		pubPath = filepath.Join(dst, fetchrt.WasiSubdir)
	}
	verify := func() string {
		// complete = every expected file and directory is there with the archived bytes
		var names []string
		for n := range expFiles {
			names = append(names, n)
		}
		sort.Strings(names)
		for _, n := range names {
			got, err := os.ReadFile(filepath.Join(dst, n))
			if err != nil {
				return fmt.Sprintf("file %q of the archive is missing from the destination", n)
			}
			if !bytes.Equal(got, expFiles[n]) {
				return fmt.Sprintf("file %q has %d bytes that differ from the %d archived bytes", n, len(got), len(expFiles[n]))
			}
		}
		var dn []string
		for n := range expDirs {
			dn = append(dn, n)
		}
		sort.Strings(dn)
		for _, n := range dn {
			if st, err := os.Stat(filepath.Join(dst, n)); err != nil || !st.IsDir() {
				return fmt.Sprintf("directory %q of the archive is missing from the destination", n)
			}
		}
		return ""
	}
	viol := ""
	w.OnMutate = func(task int, op, p string) {
		if published && under(p, pubPath) && viol == "" {
			viol = fmt.Sprintf("published-destination-modified|task %d: %s %s after the destination had been published", task, op, w.Rel(p))
		}
	}
	s.OnStep = func() string {
		if w.Viol != "" {
			return w.Viol
		}
		if viol != "" {
			return viol
		}
		if !published && w.Dirty {
			w.Dirty = false
			if _, err := os.Lstat(pubPath); err == nil {
				published = true
				s.Probe("destination-published")
				if checkable {
					if why := verify(); why != "" {
						viol = "partial-publish|the destination directory became visible while incomplete: " + why
						return viol
					}
				}
			}
		}
		return ""
	}
	outs := make([]*outcome, len(sc.Reqs))
	for i, r := range sc.Reqs {
		i, r := i, r
		outs[i] = &outcome{}
		w.Faults[i] = r.Faults
		t := s.Spawn(fmt.Sprintf("proc%d", i), func() {
			o := outs[i]
			o.inv = s.Stamp()
			s.Logf("  t%d request %s begins [#%d]", i, sc.Kind, o.inv)
			switch sc.Kind {
			case "lib":
				o.err = fetchrt.Lib(libURL, dst, sc.Sub)
			case "esp":
				o.err = fetchrt.ESPClang("linux-amd64", dst)
			case "wasi":
				_, o.err = fetchrt.WasiSDK(dst)
			}
			o.returned = true
			o.ret = s.Stamp()
			s.Logf("  t%d request returns %v [#%d]", i, errText(w, o.err), o.ret)
		})
		t.CrashAt = r.CrashAt
	}
	s.Run()
	res := &driver.Result{TraceHash: s.TraceHash, Steps: s.Step, SimTime: s.SimTimeEnd, Choices: ch.Rec, Diverged: ch.Diverged,
		Faults: w.Fired, Probes: s.Probes, Counters: map[string]int{}}
	res.Probes["format-"+sc.Format]++
	res.Probes["kind-"+sc.Kind]++
	if kl.hostile {
		res.Probes["archive-hostile"]++
	}
	if kl.illform {
		res.Probes["archive-illformed"]++
	}
	// Debris is what a process that died earlier left behind: the faults are over,
	// every request of this run is a fault-free one and must get its copy
	// (liveness once faults have stopped).  Faults injected into this run's own
	// requests excuse failures.
	anyFault := false
	for _, r := range sc.Reqs {
		if len(r.Faults) > 0 || r.CrashAt > 0 {
			anyFault = true
		}
	}
	if anyFault {
		res.Probes["runs-with-injected-faults"]++
	} else if len(sc.Debris) > 0 {
		res.Probes["runs-fault-free-after-a-crashed-predecessor"]++
	} else {
		res.Probes["runs-fault-free"]++
	}
	res.Nontrivial = len(sc.Reqs) >= 2 && s.Preempts > 0 || kl.hostile || anyFault || len(sc.Debris) > 0
	cls, det := "", ""
	set := func(c, d string) {
		if cls == "" {
			cls, det = c, d
		}
	}
	if v := w.Viol; v != "" {
		p := strings.SplitN(v, "|", 2)
		set(p[0], p[1])
	}
	if viol != "" {
		p := strings.SplitN(viol, "|", 2)
		set(p[0], p[1])
	}
	if len(s.Misuse) > 0 {
		set("pthread-misuse", s.Misuse[0])
	}
	for _, t := range s.Tasks {
		if t.Panicked {
			set("runtime-panic", fmt.Sprintf("request %d panicked: %v", t.ID, t.Panic))
		}
	}
	if s.End == sim.EndStepCap {
		set("liveness", "requests did not finish within the step bound")
	}
	// post-run sweep of the whole sandbox (also covers the external tar)
	if cls == "" {
		filepath.Walk(sb, func(p string, info os.FileInfo, err error) error {
			if err != nil || cls != "" {
				return nil
			}
			if c, ok := canaries[p]; ok {
				if b, _ := os.ReadFile(p); string(b) != c {
					set("escape", "canary file "+w.Rel(p)+" outside the destination was modified")
				}
				return nil
			}
			for _, r := range allowedRoots {
				if under(p, r) {
					return nil
				}
			}
			if info.IsDir() && (under(dst, p) || under(filepath.Join(cache, "sdk-other"), p) || under(filepath.Join(sb, "l1", "l2", "l3", "canary-3"), p)) {
				return nil
			}
			set("escape", "after the run "+w.Rel(p)+" exists outside the requested destination's own tree")
			return nil
		})
		for p := range canaries {
			if _, err := os.Stat(p); err != nil {
				set("escape", "canary file "+w.Rel(p)+" outside the destination was removed")
			}
		}
	}
	if cls == "" {
		_, derr := os.Lstat(pubPath)
		for i, o := range outs {
			if !o.returned {
				continue
			}
			if o.err == nil {
				if kl.hostile && sc.Format != "txz" && !flipped {
					set("escaping-entry-accepted", fmt.Sprintf("request %d returned nil although the archive holds an entry that would escape the destination; such an entry must be rejected with an error", i))
				}
				if derr != nil {
					set("nil-without-copy", fmt.Sprintf("request %d returned nil but the destination does not exist", i))
				} else if checkable {
					if why := verify(); why != "" {
						set("content-mismatch", fmt.Sprintf("request %d returned nil but the destination is not a complete copy: %s", i, why))
					}
				}
			} else if !anyFault && mustSucceed {
				set("request-failed", fmt.Sprintf("request %d failed on a well-formed %s archive without any injected fault (leftovers of an earlier crashed process: %v): %s", i, sc.Format, sc.Debris, errText(w, o.err)))
			}
		}
		if derr == nil && checkable {
			if why := verify(); why != "" {
				set("partial-publish", "at the end of the run the destination exists but is incomplete: "+why)
			}
		}
		if derr == nil {
			// one copy of the archive: nothing that a killed earlier request had left in a
			// temporary directory may be part of what is published
			filepath.Walk(dst, func(p string, info os.FileInfo, err error) error {
				if err == nil && info.Mode().IsRegular() && info.Size() == int64(len(staleMark)) {
					if b, _ := os.ReadFile(p); string(b) == staleMark {
						set("leftover-published", "the published destination contains "+w.Rel(p)+", which no entry of the archive put there: an earlier, killed request had left it in a temporary directory")
					}
				}
				return nil
			})
		}
	}
	if cls == "" && s.End == sim.EndQuiescent {
		for _, t := range s.EndBlocked {
			set("stuck", fmt.Sprintf("request %d is blocked forever (%s) although no live process holds what it waits for", t.ID, sim.KindName(t.BlockKind)))
		}
	}
	// observations (not violations): does debris of failed requests block later ones?
	if cls == "" && (anyFault || len(sc.Debris) > 0) {
		failed := 0
		for _, o := range outs {
			if o.returned && o.err != nil {
				failed++
			}
		}
		if failed > 0 {
			if _, err := os.Stat(dst + ".extract"); err == nil {
				res.Obs = append(res.Obs, "faulted run leaves <dst>.extract behind")
			}
		}
	}
	res.Violation, res.Detail = cls, det
	if cls == "escape" {
		dirty = true
	}
	h := uint64(1469598103934665603)
	for _, o := range outs {
		v := uint64(1)
		if o.returned {
			v = 2
			if o.err != nil {
				v = 3
			}
		}
		h = (h ^ v) * 1099511628211
	}
	if published {
		h = (h ^ 9) * 1099511628211
	}
	res.StateHash = h
	if keep {
		res.Log = s.LogLines
		res.Log = append(res.Log, fmt.Sprintf("end: %s after %d steps; archive: %s hostile=%v illformed=%v; outcome: %s %s",
			[]string{"quiescent", "step cap", "aborted"}[s.End], s.Step, sc.Format, kl.hostile, kl.illform, cls, det))
	}
	return res
}

// Cleanup removes this process's sandbox skeleton.
func (prop) Cleanup() {
	os.RemoveAll(filepath.Join(sandboxBase(), fmt.Sprintf("verif-c20-%d", os.Getpid())))
}

func errText(w *simos.World, err error) string {
	if err == nil {
		return "nil"
	}
	return strings.ReplaceAll(err.Error(), w.Sandbox, "$SB")
}

// ---- shrinking ---------------------------------------------------------------------

func clone(sc *Scenario) *Scenario {
	b, _ := json.Marshal(sc)
	var c Scenario
	json.Unmarshal(b, &c)
	return &c
}

func (prop) Shrink(scx driver.Scenario) []driver.Scenario {
	sc := scx.(*Scenario)
	var out []driver.Scenario
	if len(sc.Reqs) > 1 {
		for i := range sc.Reqs {
			c := clone(sc)
			c.Reqs = append(c.Reqs[:i], c.Reqs[i+1:]...)
			out = append(out, c)
		}
	}
	for i := range sc.Entries {
		if len(sc.Entries) > 1 {
			c := clone(sc)
			c.Entries = append(c.Entries[:i], c.Entries[i+1:]...)
			out = append(out, c)
		}
	}
	for i, r := range sc.Reqs {
		for k := range r.Faults {
			c := clone(sc)
			c.Reqs[i].Faults = append(c.Reqs[i].Faults[:k], c.Reqs[i].Faults[k+1:]...)
			out = append(out, c)
		}
		if r.CrashAt > 0 {
			c := clone(sc)
			c.Reqs[i].CrashAt = 0
			out = append(out, c)
		}
	}
	for i := range sc.Debris {
		c := clone(sc)
		c.Debris = append(c.Debris[:i], c.Debris[i+1:]...)
		out = append(out, c)
	}
	for i, e := range sc.Entries {
		if e.Len > 4 {
			c := clone(sc)
			c.Entries[i].Len = e.Len / 8
			out = append(out, c)
		}
	}
	if sc.Format == "txz" && sc.Kind == "lib" {
		c := clone(sc)
		c.Format = "tgz"
		out = append(out, c)
	}
	return out
}

func (prop) Describe() driver.Description {
	d := driver.Description{
		Rule: "a case is one simulated run: a generated archive (tar.gz / zip / tar.xz; entry names from the grammar plain, nested, './', '..' at any depth, absolute, empty, duplicate, file-vs-directory clash, symlink and hard-link entries; contents 0-64 KiB) requested by 1-4 concurrent simulated processes for one destination (lib with or without internal sub directory, ESP clang, WASI SDK), under one seeded schedule and fault plan; " +
			"non-trivial: two or more processes with a preemption, or a hostile archive, or an injected fault/debris; distinct = distinct hash of the (task, sim-point kind) sequence",
		Components: []driver.Component{
			{Name: "internal/crosscompile/fetch.go", Real: true, What: "lifted verbatim from the working tree; os/syscall.Flock/http.Get/exec.Command selectors retargeted to the seam"},
			{Name: "archive/tar, archive/zip, compress/gzip", Real: true, What: "Go standard library"},
			{Name: "external tar (+xz) for .tar.xz", Real: true, What: "the real GNU tar, one atomic step from the simulator's point of view"},
			{Name: "file system", Real: true, What: "real files under a private /dev/shm sandbox; every call is a sim point, checked for confinement before it takes effect, and may fail by injection"},
			{Name: "flock", Real: false, What: "simulated advisory locks keyed by (device, inode), dropped when the owning process crashes"},
			{Name: "net/http", Real: false, What: "simulated transport serving the generated archive with injected faults"},
			{Name: "processes", Real: false, What: "one task per llgo process; a crash parks the task forever without running deferred clean-up"},
		},
		Assumptions: []string{
			"power loss (un-synced data) is not modelled: the code never syncs and the property does not promise durability",
			"for .tar.xz the rejection-with-error clause is not asserted (GNU tar neutralises '..' and absolute names instead of failing); confinement is",
			"the archive file itself, which the code leaves inside the destination, is tolerated as an extra file",
		},
		LiftInfo: fetchrt.LiftInfo,
		// directory-modifying system calls and process creation do not scale
		// across processes in this sandbox; four workers is the measured optimum
		Workers:    4,
		RunTimeout: 600,
		FaultKinds: []string{"process-crash", "fs-error", "fs-error-on-removal", "short-write", "net-connect-error", "net-bad-status", "net-body-error", "net-truncated-body", "net-flipped-byte"},
	}
	if !haveXz {
		d.Assumptions = append(d.Assumptions, "xz is not installed: the .tar.xz format was NOT exercised in this run")
	}
	return d
}

func main() { driver.Main(prop{}) }
