# sourced by vcheck (cwd = scratch module root; $VERIF, $SCR, $GO set).
# One executor package per GOROOT whose sync sources are available; llgo
# compiles the unmodified std sync on top of sema_llgo.go, so every GOROOT it
# may be used with is a configuration of the system under test.
G123=${VERIF_GOROOT123:-/usr/lib/go-1.23}
G124=${VERIF_GOROOT124:-/root/go/pkg/mod/golang.org/toolchain@v0.0.1-go1.24.0.linux-amd64}
G126=${VERIF_GOROOT126:-/opt/veriftools/go1.26.8}
SPEC=harness/c11/lift.json
{
cat <<'J'
{"packages":[
 {"out":"lifted/semart","name":"semart",
  "files":["${REPO}/runtime/internal/lib/runtime/sema_llgo.go"],
  "imports":{"github.com/goplus/llgo/runtime/internal/clite/pthread/sync":"verif/sim/psync",
             "github.com/goplus/llgo/runtime/internal/lib/sync/atomic":"verif/sim/satomic"},
  "glue":["glue/semart/glue.go.in"],
  "resetfunc":"resetLiftedGlobals",
  "need":["semaAcquire","semaRelease","sync_runtime_notifyListAdd","sync_runtime_notifyListWait","sync_runtime_notifyListNotifyAll","sync_runtime_notifyListNotifyOne","notifyList"]},
 {"out":"lifted/atomicval","name":"atomicval",
  "files":["${REPO}/runtime/internal/lib/sync/atomic/value.go"],
  "glue":["glue/atomicval/glue.go.in"],
  "need":["Value","Value.Load","Value.Store","Value.Swap","Value.CompareAndSwap"]}
J
VARS=()
IMPORTS=""
mkexec() { # variant syncpkg
  mkdir -p harness/c11/exec$1
  sed -e "s/EXECPKG/exec$1/; s/SYNCPKG/$2/; s/VARIANT/go1.$1/" harness/c11/exec.go.in > harness/c11/exec$1/exec.go
  IMPORTS="$IMPORTS\t_ \"verif/harness/c11/exec$1\"\n"
}
if [ -f "$G123/src/sync/mutex.go" ]; then
cat <<'J'
 ,{"out":"lifted/syncrt23","name":"syncrt23",
  "files":["${G123}/src/sync/mutex.go","${G123}/src/sync/rwmutex.go","${G123}/src/sync/waitgroup.go","${G123}/src/sync/once.go","${G123}/src/sync/cond.go","${G123}/src/sync/runtime.go","${G123}/src/sync/runtime2.go"],
  "imports":{"internal/race":"verif/stub/race","sync/atomic":"verif/sim/satomic"},
  "dropbodyless":true,
  "glue":["glue/syncrt/glue23.go.in"],
  "need":["Mutex","RWMutex","WaitGroup","Once","Cond","NewCond"]}
J
mkexec 23 syncrt23; VARS+=(-var "G123=$G123")
fi
if [ -f "$G124/src/internal/sync/mutex.go" ]; then
cat <<'J'
 ,{"out":"lifted/isyncrt24","name":"isyncrt24",
  "files":["${G124}/src/internal/sync/mutex.go","${G124}/src/internal/sync/runtime.go"],
  "imports":{"internal/race":"verif/stub/race","sync/atomic":"verif/sim/satomic"},
  "dropbodyless":true,
  "glue":["glue/isyncrt/glue.go.in"],
  "need":["Mutex","Mutex.Lock","Mutex.Unlock","Mutex.TryLock"]},
 {"out":"lifted/syncrt24","name":"syncrt24",
  "files":["${G124}/src/sync/mutex.go","${G124}/src/sync/rwmutex.go","${G124}/src/sync/waitgroup.go","${G124}/src/sync/once.go","${G124}/src/sync/cond.go","${G124}/src/sync/runtime.go","${G124}/src/sync/runtime2.go"],
  "imports":{"internal/race":"verif/stub/race","sync/atomic":"verif/sim/satomic","internal/sync":"verif/lifted/isyncrt24"},
  "dropbodyless":true,
  "glue":["glue/syncrt/glue24.go.in"],
  "need":["Mutex","RWMutex","WaitGroup","Once","Cond","NewCond"]}
J
mkexec 24 syncrt24; VARS+=(-var "G124=$G124")
fi
if [ -f "$G126/src/internal/sync/mutex.go" ]; then
cat <<'J'
 ,{"out":"lifted/isyncrt26","name":"isyncrt26",
  "files":["${G126}/src/internal/sync/mutex.go","${G126}/src/internal/sync/runtime.go"],
  "imports":{"internal/race":"verif/stub/race","sync/atomic":"verif/sim/satomic"},
  "dropbodyless":true,
  "glue":["glue/isyncrt/glue.go.in"],
  "need":["Mutex","Mutex.Lock","Mutex.Unlock","Mutex.TryLock"]},
 {"out":"lifted/syncrt26","name":"syncrt26",
  "files":["${G126}/src/sync/mutex.go","${G126}/src/sync/rwmutex.go","${G126}/src/sync/waitgroup.go","${G126}/src/sync/once.go","${G126}/src/sync/cond.go","${G126}/src/sync/runtime.go","${G126}/src/sync/runtime2.go"],
  "imports":{"internal/race":"verif/stub/race","sync/atomic":"verif/sim/satomic","internal/sync":"verif/lifted/isyncrt26","internal/synctest":"verif/stub/synctest"},
  "dropbodyless":true,
  "glue":["glue/syncrt/glue26.go.in"],
  "need":["Mutex","RWMutex","WaitGroup","Once","Cond","NewCond"]}
J
mkexec 26 syncrt26; VARS+=(-var "G126=$G126")
fi
echo "]}"
} > $SPEC
[ -n "$IMPORTS" ] || { echo "no GOROOT with sync sources found" >&2; return 1; }
printf "package main\n\nimport (\n$IMPORTS)\n" > harness/c11/variants_gen.go
VLIFT_EXTRA=("${VARS[@]}")
