// Package ctypes holds the scenario and history types shared by the C11
// harness and its per-GOROOT executor packages.
package ctypes

import (
	"fmt"

	"verif/sim"
)

type Op struct {
	K string `json:"k"`
	A int    `json:"a,omitempty"` // object index / old value for cas
	V int    `json:"v,omitempty"` // value / flag
}

type Scenario struct {
	Kind    string     `json:"kind"`    // sema notify mutex rwmutex wg once cond value
	Variant string     `json:"variant"` // which GOROOT's sync sources run on top of llgo's semaphores
	Init    []int      `json:"init,omitempty"`
	Base    uint32     `json:"base,omitempty"` // notify / cond: initial value of both ticket counters (wrap-around near 2^32)
	Tasks   [][]Op     `json:"tasks"`
	Cfg     sim.Config `json:"cfg"`
}

type OpRec struct {
	Task, Idx int
	Op        *Op
	Inv, Ret  uint64
	OK        bool
	Val       int    // loaded / swapped-out value (-1 = nil)
	Ticket    uint32 // notify: ticket taken
	AddInv    uint64 // notify/cond: stamps around the waiting / notifying step proper
	AddRet    uint64
	CritIn    uint64
	CritOut   uint64
}

// Info is the harness-side bookkeeping of a run (plain memory: only one task
// runs at a time).
type Info struct {
	Viol      string
	OnceRuns  int
	OnceStart uint64
	OnceEnd   uint64
}

func (o *Op) String() string {
	switch o.K {
	case "acq", "rel", "lock", "try":
		return fmt.Sprintf("%s(#%d)", o.K, o.A)
	case "store", "swap", "add":
		return fmt.Sprintf("%s(%d)", o.K, o.V)
	case "cas":
		return fmt.Sprintf("cas(%d->%d)", o.A, o.V)
	case "signal", "broadcast":
		if o.V == 1 {
			return o.K + "(holding L)"
		}
	}
	return o.K
}

func (r *OpRec) Result() string {
	switch r.Op.K {
	case "try", "tryr", "tryw", "cas":
		return fmt.Sprint(r.OK)
	case "load", "swap":
		if r.Val < 0 {
			return "nil"
		}
		return fmt.Sprint(r.Val)
	case "wait":
		return fmt.Sprintf("returned (ticket %d)", r.Ticket)
	}
	return "done"
}

// Setup builds the world of a scenario in the active simulation and spawns its tasks.
type Setup func(sc *Scenario, s *sim.Sim) ([]*OpRec, *Info)

var Variants = map[string]Setup{}
var VariantNames []string
var LiftInfo [][2]string

func Register(name string, f Setup, li [][2]string) {
	Variants[name] = f
	VariantNames = append(VariantNames, name)
	LiftInfo = append(LiftInfo, li...)
}
