// C11: sync primitives under contention.  Runs llgo's real sema_llgo.go
// (semaphores keyed by address, notify list) and atomic.Value, with the
// unmodified standard sync sources on top of them (that is what llgo compiles),
// on the simulated pthread layer with simulated atomics and clock.
package main

import (
	"encoding/json"
	"fmt"

	"verif/driver"
	"verif/harness/c11/ctypes"
	"verif/lifted/atomicval"
	"verif/lifted/semart"
	"verif/sim"
)

type Op = ctypes.Op
type Scenario = ctypes.Scenario
type opRec = ctypes.OpRec

type prop struct{}

func (prop) ID() string { return "C11" }

func (prop) Decode(b []byte) (driver.Scenario, error) {
	var sc Scenario
	err := json.Unmarshal(b, &sc)
	return &sc, err
}

var kinds = []string{"sema", "notify", "mutex", "rwmutex", "wg", "once", "cond", "value"}

func genCfg(rng *sim.Rng, nt int) sim.Config {
	cfg := sim.Config{MaxSteps: 4000, LiveSteps: 6000}
	switch rng.Intn(5) {
	case 0, 4:
		cfg.Strategy = "uniform"
	case 1:
		cfg.Strategy = "pct"
		cfg.PCTDepth = rng.Range(1, 4)
		cfg.PCTLen = rng.Range(20, 300)
	case 2:
		cfg.Strategy = "runtoblock"
		cfg.PreemptP = []float64{0.02, 0.1, 0.3}[rng.Intn(3)]
	case 3:
		cfg.Strategy = "starve"
		cfg.StarveTask = rng.Intn(nt)
	}
	switch rng.Intn(3) {
	case 1:
		cfg.SpuriousRate = 0.05
		cfg.SpuriousMax = 4
	case 2:
		cfg.SpuriousRate = 0.25
		cfg.SpuriousMax = 16
	}
	if rng.Intn(2) == 0 {
		cfg.ClockMaxStep = 4_000_000 // jumps over sync.Mutex's 1 ms starvation threshold
	}
	return cfg
}

func (prop) Generate(rng *sim.Rng, tier string, runIndex int) driver.Scenario {
	sc := &Scenario{Kind: kinds[rng.Intn(len(kinds))], Variant: ctypes.VariantNames[rng.Intn(len(ctypes.VariantNames))]}
	maxTasks, maxOps := 4, 6
	if tier == "thorough" && rng.Intn(3) == 0 {
		maxTasks, maxOps = 8, 8
	}
	nt := rng.Range(2, maxTasks)
	pick := func(ks ...string) string { return ks[rng.Intn(len(ks))] }
	switch sc.Kind {
	case "sema":
		ns := rng.Range(1, 2)
		for i := 0; i < ns; i++ {
			sc.Init = append(sc.Init, rng.Intn(3))
		}
		for t := 0; t < nt; t++ {
			var ops []Op
			for i, n := 0, rng.Range(1, maxOps); i < n; i++ {
				ops = append(ops, Op{K: pick("acq", "rel"), A: rng.Intn(ns)})
			}
			sc.Tasks = append(sc.Tasks, ops)
		}
	case "notify":
		sc.Base = []uint32{0, 0, 0xfffffffe, 0xfffffffc, 0x7fffffff, 0x7ffffffe}[rng.Intn(6)]
		for t := 0; t < nt; t++ {
			var ops []Op
			for i, n := 0, rng.Range(1, maxOps-2); i < n; i++ {
				ops = append(ops, Op{K: pick("wait", "wait", "one", "one", "all")})
			}
			sc.Tasks = append(sc.Tasks, ops)
		}
	case "mutex":
		nm := rng.Range(1, 2)
		sc.Init = []int{nm}
		for t := 0; t < nt; t++ {
			var ops []Op
			for i, n := 0, rng.Range(1, maxOps); i < n; i++ {
				ops = append(ops, Op{K: pick("lock", "lock", "lock", "try"), A: rng.Intn(nm), V: rng.Intn(3)})
			}
			sc.Tasks = append(sc.Tasks, ops)
		}
	case "rwmutex":
		for t := 0; t < nt; t++ {
			var ops []Op
			for i, n := 0, rng.Range(1, maxOps); i < n; i++ {
				ops = append(ops, Op{K: pick("r", "r", "w", "w", "tryr", "tryw"), V: rng.Intn(3)})
			}
			sc.Tasks = append(sc.Tasks, ops)
		}
	case "wg":
		// every task owes the dones it performs; Init counts them all, plus
		// sometimes one that nobody performs (then Wait must block)
		total := 0
		for t := 0; t < nt; t++ {
			var ops []Op
			owed := 0
			for i, n := 0, rng.Range(1, maxOps); i < n; i++ {
				switch k := pick("done", "done", "wait", "add"); k {
				case "done":
					ops = append(ops, Op{K: "done"})
					owed++
				case "wait":
					ops = append(ops, Op{K: "wait"})
				case "add":
					// legal only while this task still owes a done: add, then two dones later
					ops = append(ops, Op{K: "done?"}) // placeholder resolved below
				}
			}
			// resolve placeholders: "add" immediately followed by its own extra done,
			// placed before one of the task's owed dones
			var out []Op
			for _, o := range ops {
				if o.K == "done?" {
					if owed > 0 {
						out = append(out, Op{K: "add", V: 1}, Op{K: "done"})
					}
					continue
				}
				out = append(out, o)
			}
			// make sure an owed done follows every add: move adds to the front
			var adds, rest []Op
			for i := 0; i < len(out); i++ {
				if out[i].K == "add" {
					adds = append(adds, out[i], out[i+1])
					i++
				} else {
					rest = append(rest, out[i])
				}
			}
			out = append(adds, rest...)
			if len(out) == 0 {
				out = []Op{{K: "wait"}}
			}
			total += owed
			sc.Tasks = append(sc.Tasks, out)
		}
		if rng.Intn(6) == 0 {
			total++
		}
		sc.Init = []int{total}
	case "once":
		for t := 0; t < nt; t++ {
			var ops []Op
			for i, n := 0, rng.Range(1, 3); i < n; i++ {
				ops = append(ops, Op{K: "do"})
			}
			sc.Tasks = append(sc.Tasks, ops)
		}
	case "cond":
		sc.Base = []uint32{0, 0, 0xfffffffe, 0xfffffffc, 0x7fffffff, 0x7ffffffe}[rng.Intn(6)]
		for t := 0; t < nt; t++ {
			var ops []Op
			for i, n := 0, rng.Range(1, maxOps-2); i < n; i++ {
				ops = append(ops, Op{K: pick("wait", "wait", "signal", "signal", "broadcast"), V: rng.Intn(2)})
			}
			sc.Tasks = append(sc.Tasks, ops)
		}
	case "value":
		val := 0
		for t := 0; t < nt; t++ {
			var ops []Op
			for i, n := 0, rng.Range(1, maxOps); i < n; i++ {
				k := pick("load", "load", "store", "swap", "cas")
				val++
				ops = append(ops, Op{K: k, V: val, A: rng.Intn(val + 1)})
			}
			sc.Tasks = append(sc.Tasks, ops)
		}
	}
	sc.Cfg = genCfg(rng, nt)
	return sc
}

// ---- execution -------------------------------------------------------------

type world struct {
	sc   *Scenario
	s    *sim.Sim
	info *ctypes.Info
}

func (prop) Run(scx driver.Scenario, ch *sim.Choices, keep bool) *driver.Result {
	sc := scx.(*Scenario)
	s := sim.New(sc.Cfg, ch)
	s.KeepTrace = keep
	sim.S = s
	semart.ResetForRun()
	setup, ok := ctypes.Variants[sc.Variant]
	if !ok {
		return &driver.Result{Violation: "", Detail: "variant " + sc.Variant + " is not built into this harness", Choices: ch.Rec, Diverged: 1}
	}
	recs, info := setup(sc, s)
	w := &world{sc: sc, s: s, info: info}
	s.OnStep = func() string { return info.Viol }
	s.Run()
	res := &driver.Result{TraceHash: s.TraceHash, Steps: s.Step, SimTime: s.SimTimeEnd, Choices: ch.Rec, Diverged: ch.Diverged,
		Faults: map[string]int{"spurious-wakeup": s.Spurious}, Probes: s.Probes, Counters: map[string]int{}}
	if s.Cfg.ClockMaxStep > 0 {
		res.Faults["clock-jump-runs"] = 1
	}
	res.Nontrivial = s.Preempts > 0 && len(sc.Tasks) >= 2
	res.Probes["kind-"+sc.Kind]++
	res.Probes["variant-"+sc.Variant]++
	res.Probes["preemptions"] += s.Preempts
	cls, det := check(w, recs, res)
	res.Violation, res.Detail = cls, det
	h := uint64(1469598103934665603)
	for _, r := range recs {
		h = (h ^ uint64(r.Val+7)) * 1099511628211
		if r.Ret != 0 {
			h = (h ^ 3) * 1099511628211
		}
		if r.OK {
			h = (h ^ 5) * 1099511628211
		}
	}
	res.StateHash = h
	if keep {
		res.Log = s.LogLines
		for _, t := range s.EndBlocked {
			res.Log = append(res.Log, fmt.Sprintf("end: t%d blocked (%s obj%d)", t.ID, sim.KindName(t.BlockKind), t.BlockObj))
		}
		res.Log = append(res.Log, fmt.Sprintf("end: %s after %d steps; outcome: %s %s", []string{"quiescent", "step cap (no quiescence within the liveness bound)", "aborted"}[s.End], s.Step, cls, det))
	}
	return res
}

// ---- shrinking ---------------------------------------------------------------

func clone(sc *Scenario) *Scenario {
	b, _ := json.Marshal(sc)
	var c Scenario
	json.Unmarshal(b, &c)
	return &c
}

func (prop) Shrink(scx driver.Scenario) []driver.Scenario {
	sc := scx.(*Scenario)
	var out []driver.Scenario
	if len(sc.Tasks) > 1 {
		for t := range sc.Tasks {
			c := clone(sc)
			if sc.Kind == "wg" {
				// keep the counter consistent: the dropped task's net dones leave Init
				net := 0
				for _, o := range sc.Tasks[t] {
					if o.K == "done" {
						net++
					} else if o.K == "add" {
						net -= o.V
					}
				}
				c.Init[0] -= net
				if c.Init[0] < 0 {
					continue
				}
			}
			c.Tasks = append(c.Tasks[:t], c.Tasks[t+1:]...)
			if c.Cfg.StarveTask >= len(c.Tasks) {
				c.Cfg.StarveTask = 0
			}
			out = append(out, c)
		}
	}
	for t := range sc.Tasks {
		for i := len(sc.Tasks[t]) - 1; i >= 0; i-- {
			if len(sc.Tasks[t]) == 1 {
				continue
			}
			o := sc.Tasks[t][i]
			c := clone(sc)
			if sc.Kind == "wg" {
				if o.K == "add" {
					continue
				}
				if o.K == "done" {
					if i > 0 && sc.Tasks[t][i-1].K == "add" {
						// drop the add/done pair together
						c.Tasks[t] = append(c.Tasks[t][:i-1], c.Tasks[t][i+1:]...)
						out = append(out, c)
						continue
					}
					c.Init[0]--
					if c.Init[0] < 0 {
						continue
					}
				}
			}
			c.Tasks[t] = append(c.Tasks[t][:i], c.Tasks[t][i+1:]...)
			out = append(out, c)
		}
	}
	for t := range sc.Tasks {
		for i, o := range sc.Tasks[t] {
			if (sc.Kind == "mutex" || sc.Kind == "rwmutex") && o.V > 0 {
				c := clone(sc)
				c.Tasks[t][i].V = 0
				out = append(out, c)
			}
		}
	}
	if sc.Cfg.SpuriousRate > 0 {
		c := clone(sc)
		c.Cfg.SpuriousRate = 0
		c.Cfg.SpuriousMax = 0
		out = append(out, c)
	}
	if sc.Cfg.ClockMaxStep > 0 {
		c := clone(sc)
		c.Cfg.ClockMaxStep = 0
		out = append(out, c)
	}
	return out
}

func (prop) Describe() driver.Description {
	li := append([][2]string{}, semart.LiftInfo...)
	li = append(li, atomicval.LiftInfo...)
	li = append(li, ctypes.LiftInfo...)
	return driver.Description{
		Rule: "a case is one simulated run of a generated workload of one kind (raw semaphore, raw notify list, sync.Mutex, RWMutex, WaitGroup, Once, Cond, atomic.Value) with 2-8 tasks of 1-8 operations under one seeded schedule and fault configuration (spurious wake-ups, arbitrary signal target, clock jumps over the 1 ms mutex-starvation threshold); " +
			"non-trivial: at least two tasks and at least one preemption at a lock/wait/signal/atomic point; distinct = distinct hash of the (task, sim-point kind, object) sequence",
		Components: []driver.Component{
			{Name: "runtime/internal/lib/runtime/sema_llgo.go", Real: true, What: "lifted verbatim from the working tree"},
			{Name: "runtime/internal/lib/sync/atomic/value.go", Real: true, What: "lifted verbatim from the working tree"},
			{Name: "GOROOT/src/sync {mutex,rwmutex,waitgroup,once,cond}.go, internal/sync/mutex.go", Real: true, What: "the unmodified standard sources llgo compiles on top of its semaphores, lifted from the GOROOT named in lifted_sources"},
			{Name: "pthread mutex/cond/once", Real: false, What: "simulated (sim/psync)"},
			{Name: "sync/atomic primitives (LLVM atomic instructions in a real build)", Real: false, What: "simulated: one indivisible step per operation, preceded by a sim point (sequentially consistent)"},
			{Name: "internal/race", Real: false, What: "disabled stub"},
			{Name: "runtime nanotime", Real: false, What: "simulated clock"},
			{Name: "go statement / thread start (ssa/goroutine.go, z_thread.go)", Real: false, What: "not run in this layer"},
		},
		Assumptions: []string{
			"hardware indivisibility and total order of sync/atomic operations are assumed, not checked: under a simulator atomics are stubs (this clause of the property is out of reach of the technique)",
			"the go-statement clause is not exercised in this layer",
			"the lifted sources compiled by the standard Go compiler behave like the same sources compiled by llgo",
		},
		LiftInfo:   li,
		FaultKinds: []string{"spurious-wakeup", "clock-jump-runs"},
	}
}

func main() { driver.Main(prop{}) }
