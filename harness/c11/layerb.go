package main

// Layer B for C11: programs with schedule-independent results, compiled by the
// real llgo and run under toolchain/libdetsched (deterministic pthread
// scheduler).  This is what exercises the `go` statement lowering
// (ssa/goroutine.go: the call runs exactly once with the function value and
// arguments as evaluated at the go statement), thread start (z_thread.go) and
// the llgo-compiled semaphores underneath the real standard sync package.
// sync/atomic operations are LLVM instructions here and are never preempted by
// this scheduler: their indivisibility is NOT exercised.

import (
	"bytes"
	"encoding/json"
	"fmt"
	"os"
	"os/exec"
	"path/filepath"
	"strconv"
	"strings"
	"sync"
	"time"

	"verif/driver"
	"verif/sim"
)

var (
	bLlgo  = os.Getenv("VERIF_B_LLGO")
	bShim  = os.Getenv("VERIF_B_SHIM")
	bLib   = os.Getenv("VERIF_B_LIB")
	bTmp   = os.Getenv("VERIF_B_TMP")
	bGo123 = os.Getenv("VERIF_B_GO123")
	bRepo  = os.Getenv("VERIF_B_REPO")
	bCache = os.Getenv("VERIF_B_CACHE")
)

type bProgram struct {
	Name   string
	Src    string
	Expect []string // lines the program must print, in any order, exactly once each
}

// threadLimit: simulated limit on threads holding resources, per program kind (absent = none)
var threadLimit = map[string]int{"goroutine-churn": 24}

// templates: n goroutines, k iterations
func templates(rng *sim.Rng) []bProgram {
	n, k := rng.Range(2, 5), rng.Range(2, 6)
	var ps []bProgram
	// 1. go statement: arguments and function value are evaluated at the go statement
	{
		var sb strings.Builder
		sb.WriteString("package main\n\nimport \"sync\"\n\nfunc fa(wg *sync.WaitGroup, id int, x int, s string) { println(\"G fa\", id, x, s); wg.Done() }\nfunc fb(wg *sync.WaitGroup, id int, x int, s string) { println(\"G fb\", id, x, s); wg.Done() }\n\nfunc main() {\n\tvar wg sync.WaitGroup\n")
		fmt.Fprintf(&sb, "\twg.Add(%d)\n\tx := 100\n\ts := \"a\"\n\tfn := fa\n", n)
		var exp []string
		x, s, fn := 100, "a", "fa"
		for i := 0; i < n; i++ {
			fmt.Fprintf(&sb, "\tgo fn(&wg, %d, x, s)\n", i)
			exp = append(exp, fmt.Sprintf("G %s %d %d %s", fn, i, x, s))
			// the parent changes everything right after the go statement
			x += 7
			s += "b"
			if fn == "fa" {
				fn = "fb"
			} else {
				fn = "fa"
			}
			fmt.Fprintf(&sb, "\tx += 7\n\ts += \"b\"\n\tfn = %s\n", fn)
		}
		sb.WriteString("\twg.Wait()\n\tprintln(\"G done\")\n}\n")
		exp = append(exp, "G done")
		ps = append(ps, bProgram{"go-statement", sb.String(), exp})
	}
	// 1b. go statement, other callee shapes: method value, interface method, closure with
	// arguments, many arguments of mixed types, no arguments; every operand is changed
	// by the parent right after the go statement
	{
		seedv := rng.Range(1, 50)
		src := fmt.Sprintf(`package main

import (
	"sync"
	"sync/atomic"
)

type T struct{ id int }

func (t T) M(wg *sync.WaitGroup, x int) { println("G T.M", t.id, x); wg.Done() }

type P struct{ id int }

func (p *P) M(wg *sync.WaitGroup, x int) { println("G P.M", p.id, x); wg.Done() }

type I interface {
	M(wg *sync.WaitGroup, x int)
}

type S struct {
	a int32
	b string
	c [3]int64
}

func many(wg *sync.WaitGroup, a int8, b float64, c string, d S, e bool, f uint64, g *int) {
	println("G many", a, b == 2.5, c, d.a, d.b, d.c[2], e, f, *g)
	wg.Done()
}

var wg0 sync.WaitGroup

func noargs() { println("G noargs"); wg0.Done() }

func main() {
	var wg sync.WaitGroup
	wg.Add(6)
	wg0.Add(1)
	x := %d
	t := T{1}
	go t.M(&wg, x) // method value: receiver copied now
	t.id = 99
	x += 1000
	p := &P{2}
	go p.M(&wg, x)
	p = &P{98}
	x += 1000
	var i I = T{3}
	go i.M(&wg, x) // interface method: dynamic value bound now
	i = &P{97}
	x += 1000
	go func(a, b int) { println("G closure", a, b); wg.Done() }(x, x+1)
	x += 1000
	s := S{7, "seven", [3]int64{1, 2, 3}}
	n := 5
	str := "str"
	go many(&wg, int8(x%%100), 2.5, str, s, true, 1<<40, &n)
	s.a, s.b, s.c[2] = 8, "eight", 4
	str = "changed"
	f := func() { println("G f1"); wg.Done() }
	go f()
	f = func() { println("G f2"); wg.Done() }
	go noargs()
	wg.Wait()
	wg0.Wait()
	// builtins as the callee of a go statement: two of them with the same
	// argument types, one after the other
	done := make(chan int)
	done2 := make(chan int, 1)
	go println(done) // prints an address: not a line the oracle reads
	go close(done)
	<-done
	go println(done2)
	go close(done2)
	_, ok := <-done2
	mm := map[int]int{1: 1, 2: 2}
	go delete(mm, 1)
	for len(mm) != 1 {
		var y sync.Mutex // a scheduling point
		y.Lock()
		y.Unlock()
	}
	println("G builtins", ok, len(mm))
	// sync/atomic functions (compiler intrinsics) as callees: neighbours with
	// identical parameter types and different operations
	var c32, d32 int32 = 100, 100
	var c64, d64 int64 = 100, 100
	var u1, u2 uint32 = 100, 100
	var p1, p2 uintptr = 100, 100
	go atomic.AddInt32(&c32, 7)
	go atomic.StoreInt32(&d32, 7)
	go atomic.StoreInt64(&c64, 7)
	go atomic.AddInt64(&d64, 7)
	go atomic.SwapUint32(&u1, 7)
	go atomic.AddUint32(&u2, 7)
	go atomic.CompareAndSwapUintptr(&p1, 100, 7)
	go atomic.CompareAndSwapUintptr(&p2, 7, 100) // fails: p2 stays 100
	for atomic.LoadInt32(&c32) == 100 || atomic.LoadInt32(&d32) == 100 || atomic.LoadInt64(&c64) == 100 || atomic.LoadInt64(&d64) == 100 ||
		atomic.LoadUint32(&u1) == 100 || atomic.LoadUint32(&u2) == 100 || atomic.LoadUintptr(&p1) == 100 {
		var y sync.Mutex // a scheduling point
		y.Lock()
		y.Unlock()
	}
	println("G intrinsics", c32, d32, c64, d64, u1, u2, p1, p2)
	println("G done")
}
`, seedv)
		x := seedv
		exp := []string{fmt.Sprintf("G T.M 1 %d", x), fmt.Sprintf("G P.M 2 %d", x+1000), fmt.Sprintf("G T.M 3 %d", x+2000),
			fmt.Sprintf("G closure %d %d", x+3000, x+3001), fmt.Sprintf("G many %d true str 7 seven 3 true 1099511627776 5", (x+4000)%100), "G f1", "G noargs", "G builtins false 1", "G intrinsics 107 7 7 107 7 107 7 100", "G done"}
		ps = append(ps, bProgram{"go-statement-shapes", src, exp})
	}
	// 1c. go statements in a helper that returns at once (scalar arguments only, top-level
	// callee), and large aggregates passed by value and overwritten by the parent
	{
		m := rng.Range(6, 12)
		src := fmt.Sprintf(`package main

import "sync"

var (
	wg   sync.WaitGroup
	mu   sync.Mutex
	seen [%d]int
	seen2 [%d]int
	bad  int
)

func worker(i int, j int64, f float64, b bool) {
	mu.Lock()
	if i >= 0 && i < len(seen) {
		seen[i]++
	} else {
		bad++
	}
	if j != int64(i)*2 || f != float64(i)+0.5 || b != (i%%2 == 0) {
		bad++
	}
	mu.Unlock()
	wg.Done()
}

//go:noinline
func spawn(i int) { go worker(i, int64(i)*2, float64(i)+0.5, i%%2 == 0) }

//go:noinline
func spawnInts(i int) { go workerInts(i, i*3+1) }

func workerInts(i, c int) {
	mu.Lock()
	if i >= 0 && i < len(seen) && c == i*3+1 {
		seen2[i]++
	} else {
		bad++
	}
	mu.Unlock()
	wg.Done()
}

//go:noinline
func filler(i int) int {
	var pad [8]int
	for k := range pad {
		pad[k] = i * 1000
	}
	return pad[3]
}

type Big struct {
	a [16]int64
	s string
}

func sum(b Big, want int64) {
	var t int64
	for _, v := range b.a {
		t += v
	}
	mu.Lock()
	if t != want || b.s != "first" {
		bad++
	}
	mu.Unlock()
	wg.Done()
}

//go:noinline
func spawnBig(i int) {
	var b Big
	for k := range b.a {
		b.a[k] = int64(i)
	}
	b.s = "first"
	go sum(b, int64(i)*16)
	for k := range b.a {
		b.a[k] = -7
	}
	b.s = "second"
}

func main() {
	n := len(seen)
	wg.Add(3 * n)
	x := 0
	for i := 0; i < n; i++ {
		spawn(i)
		x += filler(i)
		spawnInts(i)
		x += filler(i + 7)
		spawnBig(i + 1)
	}
	wg.Wait()
	ok := true
	for i := 0; i < n; i++ {
		if seen[i] != 1 || seen2[i] != 1 {
			ok = false
		}
	}
	println("G each-once", ok, "bad", bad, x >= 0)
}
`, m, m)
		ps = append(ps, bProgram{"go-statement-helper", src, []string{"G each-once true bad 0 true"}})
	}
	// 1c. goroutine churn: many short goroutines one after the other, never more
	// than four alive, under a simulated limit on threads holding resources: the
	// thread of a finished goroutine must be given back (detached or joined), or
	// thread creation fails sooner or later and a go statement cannot run its call
	{
		batches := rng.Range(20, 40)
		src := fmt.Sprintf(`package main

import "sync"

func worker(i int, done chan int) { done <- i }

func main() {
	done := make(chan int)
	n := 0
	for i := 1; i <= %d; i++ {
		go worker(i, done)
		n += <-done
	}
	var wg sync.WaitGroup
	var mu sync.Mutex
	m := 0
	for b := 0; b < %d; b++ {
		wg.Add(4)
		for j := 0; j < 4; j++ {
			go func(v int) {
				mu.Lock()
				m += v
				mu.Unlock()
				wg.Done()
			}(b*4 + j)
		}
		wg.Wait()
	}
	println("G churn", n, m)
}
`, 3*batches, batches)
		t := 3 * batches
		g := 4 * batches
		ps = append(ps, bProgram{"goroutine-churn", src, []string{fmt.Sprintf("G churn %d %d", t*(t+1)/2, g*(g-1)/2)}})
	}
	// 1d. a goroutine gets a stack like any other: deep recursion and a large
	// frame inside a go statement's call behave as on the main goroutine
	{
		depth := rng.Range(1500, 2500)
		src := fmt.Sprintf(`package main

//go:noinline
func deep(n int, salt int64) int64 {
	var a [64]int64
	for i := range a {
		a[i] = salt + int64(i*n)
	}
	if n == 0 {
		return a[7]
	}
	return deep(n-1, salt+1) + a[n%%64] - a[(n+1)%%64]
}

//go:noinline
func wide(salt int64) int64 {
	var big [131072]int64 // 1 MB frame
	for i := 0; i < len(big); i += 4096 {
		big[i] = salt + int64(i)
	}
	return big[8192] + big[126976]
}

func main() {
	want1, want2 := deep(%d, 3), wide(5)
	done := make(chan int64)
	go func() { done <- deep(%d, 3) }()
	go func() { done <- wide(5) }()
	a, b := <-done, <-done
	println("G deep-stack", a+b == want1+want2)
}
`, depth, depth)
		ps = append(ps, bProgram{"go-statement-deep-stack", src, []string{"G deep-stack true"}})
	}
	// 2. Mutex-protected counter + WaitGroup
	ps = append(ps, bProgram{"mutex-counter", fmt.Sprintf(`package main

import "sync"

func main() {
	var mu sync.Mutex
	var wg sync.WaitGroup
	counter, inside := 0, 0
	wg.Add(%d)
	for g := 0; g < %d; g++ {
		go func() {
			for i := 0; i < %d; i++ {
				mu.Lock()
				inside++
				if inside != 1 {
					println("G exclusion-broken")
				}
				counter++
				inside--
				mu.Unlock()
			}
			wg.Done()
		}()
	}
	wg.Wait()
	println("G counter", counter)
}
`, n, n, k), []string{fmt.Sprintf("G counter %d", n*k)}})
	// 3. RWMutex readers and writers
	ps = append(ps, bProgram{"rwmutex", fmt.Sprintf(`package main

import "sync"

func main() {
	var rw sync.RWMutex
	var wg sync.WaitGroup
	readers, writers, total := 0, 0, 0
	var mu sync.Mutex
	wg.Add(%d)
	for g := 0; g < %d; g++ {
		g := g
		go func() {
			for i := 0; i < %d; i++ {
				if (g+i)%%2 == 0 {
					rw.Lock()
					writers++
					if writers != 1 || readers != 0 {
						println("G exclusion-broken")
					}
					total++
					writers--
					rw.Unlock()
				} else {
					rw.RLock()
					mu.Lock()
					readers++
					mu.Unlock()
					if writers != 0 {
						println("G exclusion-broken")
					}
					mu.Lock()
					readers--
					mu.Unlock()
					rw.RUnlock()
				}
			}
			wg.Done()
		}()
	}
	wg.Wait()
	println("G total", total)
}
`, n, n, k), []string{fmt.Sprintf("G total %d", countEven(n, k))}})
	// 4. Once + Cond (one-shot latch)
	ps = append(ps, bProgram{"once-cond", fmt.Sprintf(`package main

import "sync"

func main() {
	var once sync.Once
	var mu sync.Mutex
	cond := sync.NewCond(&mu)
	var wg sync.WaitGroup
	ready, inits, seen := false, 0, 0
	wg.Add(%d)
	for g := 0; g < %d; g++ {
		go func() {
			once.Do(func() { inits++ })
			if inits != 1 {
				println("G once-broken")
			}
			mu.Lock()
			for !ready {
				cond.Wait()
			}
			seen++
			mu.Unlock()
			wg.Done()
		}()
	}
	mu.Lock()
	ready = true
	mu.Unlock()
	cond.Broadcast()
	wg.Wait()
	println("G inits", inits, "seen", seen)
}
`, n, n), []string{fmt.Sprintf("G inits 1 seen %d", n)}})
	// 5. atomics as counters (semantics only: never preempted inside)
	ps = append(ps, bProgram{"atomic-counter", fmt.Sprintf(`package main

import (
	"sync"
	"sync/atomic"
)

func main() {
	var wg sync.WaitGroup
	var a int64
	var b uint32
	var v atomic.Value
	wg.Add(%d)
	for g := 0; g < %d; g++ {
		g := g
		go func() {
			for i := 0; i < %d; i++ {
				atomic.AddInt64(&a, 3)
				for {
					old := atomic.LoadUint32(&b)
					if atomic.CompareAndSwapUint32(&b, old, old+1) {
						break
					}
				}
				v.Store(g*100 + i)
			}
			wg.Done()
		}()
	}
	wg.Wait()
	_, ok := v.Load().(int)
	println("G a", a, "b", b, ok)
}
`, n, n, k), []string{fmt.Sprintf("G a %d b %d true", 3*n*k, n*k)}})
	// 6. sync/atomic: the value semantics of every operation and width (what the
	// lowering to LLVM instructions must get right even without contention)
	ps = append(ps, bProgram{"atomic-semantics", `package main

import (
	"sync/atomic"
	"unsafe"
)

func check(name string, ok bool) {
	if !ok {
		println("G wrong", name)
	}
}

func main() {
	var i32 int32 = 5
	check("AddInt32", atomic.AddInt32(&i32, -7) == -2 && i32 == -2)
	check("SwapInt32", atomic.SwapInt32(&i32, 9) == -2 && atomic.LoadInt32(&i32) == 9)
	check("CASInt32", !atomic.CompareAndSwapInt32(&i32, 8, 1) && i32 == 9 && atomic.CompareAndSwapInt32(&i32, 9, 1) && i32 == 1)
	var u32 uint32 = 0xf0
	check("AddUint32", atomic.AddUint32(&u32, ^uint32(0)) == 0xef)
	check("AndUint32", atomic.AndUint32(&u32, 0x0f) == 0xef && u32 == 0x0f)
	check("OrUint32", atomic.OrUint32(&u32, 0x100) == 0x0f && u32 == 0x10f)
	atomic.StoreUint32(&u32, 77)
	check("StoreUint32", atomic.LoadUint32(&u32) == 77)
	var i64 int64 = 1 << 40
	check("AddInt64", atomic.AddInt64(&i64, 1<<41) == 3<<40)
	check("SwapInt64", atomic.SwapInt64(&i64, -1) == 3<<40 && atomic.LoadInt64(&i64) == -1)
	check("CASInt64", atomic.CompareAndSwapInt64(&i64, -1, 1<<50) && !atomic.CompareAndSwapInt64(&i64, -1, 0) && i64 == 1<<50)
	var u64 uint64 = 1<<63 + 5
	check("AddUint64", atomic.AddUint64(&u64, 1<<63) == 5)
	atomic.StoreUint64(&u64, 1<<62)
	check("LoadUint64", atomic.LoadUint64(&u64) == 1<<62 && atomic.SwapUint64(&u64, 3) == 1<<62)
	check("CASUint64", atomic.CompareAndSwapUint64(&u64, 3, 4) && u64 == 4)
	var up uintptr = 100
	check("AddUintptr", atomic.AddUintptr(&up, 28) == 128 && atomic.LoadUintptr(&up) == 128)
	check("CASUintptr", atomic.CompareAndSwapUintptr(&up, 128, 1) && !atomic.CompareAndSwapUintptr(&up, 128, 2) && atomic.SwapUintptr(&up, 7) == 1)
	a, b := 1, 2
	p := unsafe.Pointer(&a)
	check("SwapPointer", atomic.SwapPointer(&p, unsafe.Pointer(&b)) == unsafe.Pointer(&a) && atomic.LoadPointer(&p) == unsafe.Pointer(&b))
	check("CASPointer", !atomic.CompareAndSwapPointer(&p, unsafe.Pointer(&a), nil) && atomic.CompareAndSwapPointer(&p, unsafe.Pointer(&b), unsafe.Pointer(&a)) && p == unsafe.Pointer(&a))
	atomic.StorePointer(&p, nil)
	check("StorePointer", atomic.LoadPointer(&p) == nil)
	var ti atomic.Int64
	check("Int64 type", ti.Add(5) == 5 && ti.Swap(9) == 5 && ti.CompareAndSwap(9, 10) && ti.Load() == 10)
	var tu atomic.Uint32
	tu.Store(3)
	check("Uint32 type", tu.Add(4) == 7 && tu.Load() == 7 && !tu.CompareAndSwap(3, 0))
	var tb atomic.Bool
	check("Bool type", !tb.Load() && !tb.Swap(true) && tb.Load() && tb.CompareAndSwap(true, false) && !tb.Load())
	var tp atomic.Pointer[int]
	tp.Store(&a)
	check("Pointer type", tp.Load() == &a && tp.Swap(&b) == &a && tp.CompareAndSwap(&b, nil) && tp.Load() == nil)
	var ti32 atomic.Int32
	ti32.Store(-8)
	check("Int32 type", ti32.Add(3) == -5 && ti32.And(0x7f) == -5 && ti32.Load() == 0x7b && ti32.Or(0x100) == 0x7b && ti32.Swap(1) == 0x17b && ti32.CompareAndSwap(1, 1) && ti32.Load() == 1)
	var tu64 atomic.Uint64
	tu64.Store(1 << 40)
	check("Uint64 type", tu64.Add(^uint64(0)) == 1<<40-1 && tu64.And(0xff) == 1<<40-1 && tu64.Or(1<<63) == 0xff && tu64.Load() == 1<<63|0xff && tu64.Swap(2) == 1<<63|0xff && !tu64.CompareAndSwap(3, 4) && tu64.CompareAndSwap(2, 5) && tu64.Load() == 5)
	var tup atomic.Uintptr
	check("Uintptr type", tup.Add(9) == 9 && tup.Add(^uintptr(0)) == 8 && tup.And(12) == 8 && tup.Or(3) == 8 && tup.Load() == 11 && tup.Swap(20) == 11 && tup.CompareAndSwap(20, 21) && !tup.CompareAndSwap(20, 22) && tup.Load() == 21)
	var ti64 atomic.Int64
	check("Int64 And/Or", ti64.Or(-1) == 0 && ti64.And(1<<40|1) == -1 && ti64.Load() == 1<<40|1 && ti64.Add(-2) == 1<<40-1)
	var tu32 atomic.Uint32
	tu32.Store(0xf0)
	check("Uint32 And/Or/Swap", tu32.And(0x30) == 0xf0 && tu32.Or(1) == 0x30 && tu32.Swap(9) == 0x31 && tu32.Add(^uint32(0)) == 8)
	var ai32 int32 = 0x55
	check("AndInt32/OrInt32", atomic.AndInt32(&ai32, 0x0f) == 0x55 && ai32 == 5 && atomic.OrInt32(&ai32, 0x50) == 5 && ai32 == 0x55)
	var ai64 int64 = -1
	check("AndInt64/OrInt64", atomic.AndInt64(&ai64, 1<<50) == -1 && ai64 == 1<<50 && atomic.OrInt64(&ai64, 1) == 1<<50 && ai64 == 1<<50|1)
	var au64 uint64 = 1<<63 | 6
	check("AndUint64/OrUint64", atomic.AndUint64(&au64, 1<<63|4) == 1<<63|6 && au64 == 1<<63|4 && atomic.OrUint64(&au64, 3) == 1<<63|4 && au64 == 1<<63|7)
	var aup uintptr = 0xff
	check("AndUintptr/OrUintptr", atomic.AndUintptr(&aup, 0x3c) == 0xff && aup == 0x3c && atomic.OrUintptr(&aup, 0x41) == 0x3c && aup == 0x7d)
	var dup uintptr = 2
	check("AddUintptr down", atomic.AddUintptr(&dup, ^uintptr(0)) == 1 && atomic.AddUintptr(&dup, ^uintptr(0)) == 0 && dup == 0)
	var du32 uint32 = 1
	check("AddUint32 down", atomic.AddUint32(&du32, ^uint32(0)) == 0 && du32 == 0)
	var c64 int64 = 7
	check("CAS old==new", atomic.CompareAndSwapInt64(&c64, 7, 7) && c64 == 7 && !atomic.CompareAndSwapInt64(&c64, 8, 8))
	var v atomic.Value
	check("Value nil", v.Load() == nil)
	v.Store("x")
	check("Value", v.Load().(string) == "x" && v.Swap("y").(string) == "x" && v.CompareAndSwap("y", "z") && !v.CompareAndSwap("y", "w") && v.Load().(string) == "z")
	println("G atomic-semantics checked")
}
`, []string{"G atomic-semantics checked"}})
	return ps
}

func countEven(n, k int) int {
	c := 0
	for g := 0; g < n; g++ {
		for i := 0; i < k; i++ {
			if (g+i)%2 == 0 {
				c++
			}
		}
	}
	return c
}

func bEnv(cache string) []string {
	return []string{"PATH=" + bGo123 + ":/usr/bin:/bin", "HOME=" + bTmp, "LLGO_ROOT=" + bRepo, "LLVM_CONFIG=" + bShim + "/bin/llvm-config",
		"GOTOOLCHAIN=local", "GOFLAGS=-mod=mod", "GOPROXY=off", "GOWORK=off", "XDG_CACHE_HOME=" + cache,
		"GOCACHE=" + os.Getenv("VERIF_B_GOCACHE"), "GOMODCACHE=" + os.Getenv("VERIF_B_GOMODCACHE")}
}

func buildProgram(dir, src string) (string, error) {
	os.MkdirAll(dir, 0o755)
	os.WriteFile(filepath.Join(dir, "go.mod"), []byte("module progb\n\ngo 1.23\n"), 0o644)
	os.WriteFile(filepath.Join(dir, "main.go"), []byte(src), 0o644)
	bin := filepath.Join(dir, "prog.out")
	// -O0: LLVM 14's optimiser, with the opaque pointers this sandbox has to force
	// on, merges getelementptr instructions that differ only in their source
	// element type (seen in runtime.typehash: the array length read from the
	// TFlag field's address); such miscompilations are the sandbox's, not llgo's
	cmd := exec.Command(bLlgo, "build", "-O0", "-o", bin, ".")
	cmd.Dir = dir
	cmd.Env = bEnv(bCache)
	out, err := cmd.CombinedOutput()
	if err != nil {
		s := string(out)
		if len(s) > 1500 {
			s = s[len(s)-1500:]
		}
		return "", fmt.Errorf("llgo build failed: %v\n%s", err, s)
	}
	return bin, nil
}

func runSchedule(bin string, seed uint64, spurious, maxThreads, failCreate int) (string, string) {
	// address-space randomisation off: pointer values (hashed map keys, channel
	// addresses that order a select's cases) are then the same in every process
	cmd := exec.Command("/usr/bin/setarch", "x86_64", "-R", bin)
	if _, err := os.Stat("/usr/bin/setarch"); err != nil {
		cmd = exec.Command(bin)
	}
	cmd.Env = []string{"LD_PRELOAD=" + bLib, "VERIF_SEED=" + strconv.FormatUint(seed, 10), "VERIF_SPURIOUS=" + strconv.Itoa(spurious), "GC_DONT_GC=1", "GC_MARKERS=1", "VERIF_MAX_STEPS=300000"}
	if maxThreads > 0 {
		cmd.Env = append(cmd.Env, "VERIF_MAX_THREADS="+strconv.Itoa(maxThreads))
	}
	if failCreate > 0 {
		cmd.Env = append(cmd.Env, "VERIF_FAIL_CREATE="+strconv.Itoa(failCreate))
	}
	var buf bytes.Buffer
	cmd.Stdout, cmd.Stderr = &buf, &buf
	if err := cmd.Start(); err != nil {
		return err.Error(), "crash"
	}
	done := make(chan error, 1)
	go func() { done <- cmd.Wait() }()
	var err error
	select {
	case err = <-done:
	case <-time.After(30 * time.Second):
		cmd.Process.Kill()
		<-done
		return buf.String(), "timeout"
	}
	out := buf.String()
	switch {
	case strings.Contains(out, "QUIESCENT"):
		return out, "quiescent"
	case strings.Contains(out, "STEPCAP"):
		return out, "stepcap"
	case err != nil:
		return out, "crash"
	}
	return out, "main-exit"
}

func judgeB(p bProgram, out, end string) (string, string) {
	if strings.Contains(out, "FAULT pthread_create") && end != "timeout" {
		if !strings.Contains(out, "(injected)") {
			return "goroutine-threads-never-released", p.Name + ": never more than four goroutines are alive, yet thread creation ran into the simulated limit of " + strconv.Itoa(threadLimit[p.Name]) + " threads holding resources: the threads of finished goroutines are neither detached nor joined (on a real system the go statement stops working after some ten thousand goroutines): " + lastN(out, 300)
		}
		// injected EAGAIN: dying loudly is legitimate (Go does), and so is a correct
		// result (a retry); going on without the call is not
		if end == "crash" && strings.Contains(out, "fatal error") {
			return "", ""
		}
		if c, _ := judgeB(p, strings.ReplaceAll(out, "FAULT pthread_create", "fault pthread_create"), end); c == "" {
			return "", ""
		}
		return "go-statement-dropped", p.Name + ": thread creation failed (injected EAGAIN) and the program went on without running the go statement's call and without reporting anything: " + lastN(out, 300)
	}
	switch end {
	case "timeout":
		return "infra-timeout", "a compiled program did not finish within 30 s wall-clock under the deterministic scheduler"
	case "stepcap":
		return "liveness", p.Name + ": no termination within 300000 scheduling steps"
	case "crash":
		return "runtime-panic", p.Name + ": the compiled program died: " + lastN(out, 300)
	case "quiescent":
		return "stuck", p.Name + ": every goroutine is blocked although the program's synchronisation is deadlock-free: " + lastN(out, 200)
	}
	got := map[string]int{}
	for _, l := range strings.Split(out, "\n") {
		if strings.HasPrefix(l, "G ") {
			got[strings.TrimSpace(l)]++
		}
	}
	for _, e := range p.Expect {
		if got[e] != 1 {
			return "wrong-result", fmt.Sprintf("%s: expected the line %q exactly once, saw it %d times; output: %s", p.Name, e, got[e], lastN(out, 400))
		}
		delete(got, e)
	}
	for l := range got {
		return "wrong-result", fmt.Sprintf("%s: unexpected line %q; output: %s", p.Name, l, lastN(out, 400))
	}
	return "", ""
}

func lastN(s string, n int) string {
	if len(s) > n {
		return s[len(s)-n:]
	}
	return s
}

type bReplay struct {
	Layer    string   `json:"layer"`
	Name     string   `json:"name"`
	Program  string   `json:"program"`
	Expect   []string `json:"expect"`
	Seed     uint64   `json:"sched_seed"`
	Spurious int      `json:"spurious_per_mille"`
	MaxThr   int      `json:"simulated_thread_limit,omitempty"`
	FailCr   int      `json:"fail_pthread_create_number,omitempty"`
	Class    string   `json:"violation_class"`
	Detail   string   `json:"detail"`
	Output   string   `json:"output"`
}

func (prop) ExtraPhase(tier string, seed uint64, deadline time.Time) (*driver.ExtraResult, error) {
	if bLlgo == "" {
		return nil, nil
	}
	er := &driver.ExtraResult{Name: "layer_b", Coverage: map[string]any{}}
	rounds, nsched := 1, 60
	if tier == "thorough" {
		rounds, nsched = 8, 600
	}
	runs, nprog := 0, 0
	faultRuns, faultsFired := 0, 0
	detChecks := 0
	hashes := map[string]bool{}
	perProg := map[string]int{}
	var sample any
	for r := 0; r < rounds && (r == 0 || time.Now().Before(deadline)) && len(er.Violations) < 3; r++ {
		rng := sim.NewRng(sim.RunSeed(seed^0xc11b, uint64(r)))
		progs := templates(rng)
		// build all programs of the round side by side (a cold build of a program
		// that imports sync takes a minute on a loaded machine)
		bins := make([]string, len(progs))
		errs := make([]error, len(progs))
		var wg sync.WaitGroup
		slots := make(chan struct{}, 4)
		for pi := range progs {
			wg.Add(1)
			go func(pi int) {
				defer wg.Done()
				slots <- struct{}{}
				defer func() { <-slots }()
				bins[pi], errs[pi] = buildProgram(filepath.Join(bTmp, fmt.Sprintf("prog-%d-%d", r, pi)), progs[pi].Src)
			}(pi)
		}
		wg.Wait()
		for pi, p := range progs {
			if errs[pi] != nil {
				return nil, fmt.Errorf("layer B program %s: %v", p.Name, errs[pi])
			}
		}
		nprog += len(progs)
		for pi, p := range progs {
			bin := bins[pi]
			// every program kind gets its share of the remaining time, and at least
			// minSched schedules however late it is
			const minSched = 8
			share := time.Until(deadline) / time.Duration(len(progs)-pi)
			until := time.Now().Add(share)
			for k := 0; k < nsched && (k < minSched || time.Now().Before(until)); k++ {
				ss := sim.RunSeed(seed^0x5c4ed, uint64((r*10+pi)*100000+k))
				sp := []int{0, 0, 30, 200}[k%4]
				fc := 0
				if k%5 == 4 && (strings.HasPrefix(p.Name, "go-statement") || p.Name == "goroutine-churn") {
					fc = 1 + int(ss>>8)%6 // fault: this pthread_create of the process fails with EAGAIN
					faultRuns++
				}
				out, end := runSchedule(bin, ss, sp, threadLimit[p.Name], fc)
				if strings.Contains(out, "(injected)") {
					faultsFired++
				}
				runs++
				perProg[p.Name]++
				hashes[p.Name+out] = true
				cls, det := judgeB(p, out, end)
				if k%25 == 0 {
					// determinism self-check: the same schedule seed in a second process
					if out2, _ := runSchedule(bin, ss, sp, threadLimit[p.Name], fc); out2 != out {
						return nil, fmt.Errorf("layer B: schedule seed %d of program %s does not replay (outputs of two processes differ)", ss, p.Name)
					}
					detChecks++
				}
				if strings.HasPrefix(cls, "infra-") {
					return nil, fmt.Errorf("layer B: %s", det)
				}
				if sample == nil && p.Name == "go-statement" && k == 1 {
					sample = map[string]any{"program": p.Src, "sched_seed": ss, "output": strings.Split(strings.TrimSpace(out), "\n")}
				}
				if cls != "" {
					out2, _ := runSchedule(bin, ss, sp, threadLimit[p.Name], fc)
					if out2 != out {
						return nil, fmt.Errorf("layer B: schedule seed %d of program %s does not replay (outputs differ)", ss, p.Name)
					}
					rp := bReplay{Layer: "B", Name: p.Name, Program: p.Src, Expect: p.Expect, Seed: ss, Spurious: sp, MaxThr: threadLimit[p.Name], FailCr: fc, Class: cls, Detail: det, Output: out}
					b, _ := json.MarshalIndent(rp, "", " ")
					er.Violations = append(er.Violations, driver.ExtraViolation{Class: cls, Detail: "[compiled program under libdetsched] " + det, Name: fmt.Sprintf("B-%s-%d", p.Name, k), Replay: b})
					break
				}
			}
			os.RemoveAll(filepath.Join(bTmp, fmt.Sprintf("prog-%d-%d", r, pi)))
		}
	}
	er.Evaluations = runs
	er.Coverage["programs_compiled_by_llgo"] = nprog
	er.Coverage["schedules_run"] = runs
	er.Coverage["schedules_per_program_kind"] = perProg
	er.Coverage["distinct_outputs"] = len(hashes)
	er.Coverage["schedules_run_twice_with_identical_output"] = detChecks
	er.Coverage["faults"] = map[string]int{"schedules_with_a_failing_pthread_create_configured": faultRuns, "pthread_create_failures_fired": faultsFired}
	er.Coverage["sample"] = sample
	er.Coverage["components"] = "real: llgo lowering of the go statement and thread start, llgo-compiled sema_llgo.go under the real std sync; stub: pthread mutex/cond/once/sem and thread scheduling (toolchain/libdetsched.c); sync/atomic instructions are never preempted (indivisibility not exercised)"
	return er, nil
}

func (prop) ReplayExtra(raw []byte) (string, string, error) {
	var rp bReplay
	if err := json.Unmarshal(raw, &rp); err != nil {
		return "", "", err
	}
	dir := filepath.Join(bTmp, "replay-prog")
	defer os.RemoveAll(dir)
	bin, err := buildProgram(dir, rp.Program)
	if err != nil {
		return "", "", err
	}
	out, end := runSchedule(bin, rp.Seed, rp.Spurious, rp.MaxThr, rp.FailCr)
	fmt.Print(out)
	cls, det := judgeB(bProgram{rp.Name, rp.Program, rp.Expect}, out, end)
	return cls, det, nil
}
