package main

import (
	"fmt"
	"sort"
	"strings"
	"time"

	"github.com/anishathalye/porcupine"

	"verif/driver"
	"verif/lifted/semart"
	"verif/sim"
)

func check(w *world, recs []*opRec, res *driver.Result) (string, string) {
	s := w.s
	if len(s.Misuse) > 0 {
		return "pthread-misuse", s.Misuse[0]
	}
	if w.info.Viol != "" {
		p := strings.SplitN(w.info.Viol, "|", 2)
		return p[0], p[1]
	}
	for _, t := range s.Tasks {
		if t.Panicked {
			if f, ok := t.Panic.(semart.Fatal); ok {
				return "runtime-fatal", fmt.Sprintf("task %d: %s (the workload never misuses the primitive)", t.ID, f.Msg)
			}
			return "runtime-panic", fmt.Sprintf("task %d: %v", t.ID, t.Panic)
		}
	}
	if s.End == sim.EndStepCap {
		return "liveness", fmt.Sprintf("no quiescence within %d fair fault-free steps after %d steps", s.Cfg.LiveSteps, s.Cfg.MaxSteps)
	}
	switch w.sc.Kind {
	case "sema":
		return checkSema(w, recs)
	case "notify":
		return checkNotify(w, recs, res, false)
	case "cond":
		return checkNotify(w, recs, res, true)
	case "mutex":
		return checkMutex(w, recs)
	case "rwmutex":
		return checkRW(w, recs)
	case "wg":
		return checkWG(w, recs, res)
	case "once":
		return checkOnce(w, recs)
	case "value":
		return checkValue(w, recs, res)
	}
	return "", ""
}

func maxStamp(recs []*opRec) uint64 {
	var m uint64
	for _, r := range recs {
		for _, v := range []uint64{r.Inv, r.Ret, r.AddInv, r.AddRet} {
			if v > m {
				m = v
			}
		}
	}
	return m
}

// ---- raw semaphore: a counter that never goes negative, no lost wake-up ----------------

func checkSema(w *world, recs []*opRec) (string, string) {
	for a, init := range w.sc.Init {
		type ev struct {
			at   uint64
			kind int // 0 release invoked, 1 acquire completed
			r    *opRec
		}
		var evs []ev
		tokens := init
		var pend []*opRec
		for _, r := range recs {
			if r.Op.A != a || r.Inv == 0 {
				continue
			}
			switch r.Op.K {
			case "rel":
				evs = append(evs, ev{r.Inv, 0, r})
				if r.Ret != 0 {
					tokens++
				}
			case "acq":
				if r.Ret != 0 {
					evs = append(evs, ev{r.Ret, 1, r})
					tokens--
				} else {
					pend = append(pend, r)
				}
			}
		}
		sort.Slice(evs, func(i, j int) bool { return evs[i].at < evs[j].at })
		avail := init
		for _, e := range evs {
			if e.kind == 0 {
				avail++
			} else {
				avail--
				if avail < 0 {
					return "sema-overacquire", fmt.Sprintf("semaphore #%d (initial %d): t%d op%d completed an acquire at #%d although every token released so far had been taken", a, init, e.r.Task, e.r.Idx, e.at)
				}
			}
		}
		if w.s.End == sim.EndQuiescent && len(pend) > 0 && tokens > 0 {
			return "stuck", fmt.Sprintf("semaphore #%d: t%d op%d is blocked in acquire although %d token(s) are available (lost wake-up)", a, pend[0].Task, pend[0].Idx, tokens)
		}
	}
	return "", ""
}

// ---- notify list / sync.Cond: a waiter returns only after a notify issued after it began waiting ----

type nlState struct {
	next    int    // tickets handed out (raw) / unused (cond)
	waiting uint64 // bitmask of waiter ids that wait and have not been released
	freed   uint64 // released, not yet returned
}

type nlIn struct {
	kind string // add wait one all final
	id   int
	mask uint64
}

func checkNotify(w *world, recs []*opRec, res *driver.Result, viaCond bool) (string, string) {
	// waiter id: raw = ticket number; cond = index of the wait op
	model := porcupine.NondeterministicModel{
		Init: func() []interface{} { return []interface{}{nlState{}} },
		Step: func(st, in, out interface{}) []interface{} {
			s := st.(nlState)
			i := in.(nlIn)
			switch i.kind {
			case "add":
				if !viaCond && i.id != s.next {
					return nil // tickets are handed out in order
				}
				s.next++
				s.waiting |= 1 << uint(i.id)
				return []interface{}{s}
			case "wait":
				if s.freed&(1<<uint(i.id)) == 0 {
					return nil
				}
				s.freed &^= 1 << uint(i.id)
				return []interface{}{s}
			case "one":
				if s.waiting == 0 {
					return []interface{}{s}
				}
				// Signal wakes one waiter; which one is not specified
				var outs []interface{}
				for b := 0; b < 64; b++ {
					if s.waiting&(1<<uint(b)) != 0 {
						n := s
						n.waiting &^= 1 << uint(b)
						n.freed |= 1 << uint(b)
						outs = append(outs, n)
					}
				}
				return outs
			case "all":
				s.freed |= s.waiting
				s.waiting = 0
				return []interface{}{s}
			case "final":
				// waiters still blocked at quiescence must not have been released
				if s.freed&i.mask != 0 {
					return nil
				}
				return []interface{}{s}
			}
			return nil
		},
		Equal: func(a, b interface{}) bool { return a.(nlState) == b.(nlState) },
	}
	ms := maxStamp(recs)
	var ops []porcupine.Operation
	var pendMask uint64
	var pend []*opRec
	nwait := 0
	desc := ""
	for _, r := range recs {
		if r.Inv == 0 {
			continue
		}
		switch r.Op.K {
		case "wait":
			id := int(r.Ticket - w.sc.Base) // tickets count from the list's starting value, modulo 2^32
			if viaCond {
				id = nwait
			}
			nwait++
			if viaCond {
				if r.AddInv == 0 {
					continue // still acquiring L
				}
				end := r.AddRet
				if end == 0 {
					end = ms + 1
				}
				// the ticket is taken somewhere inside cond.Wait
				ops = append(ops, porcupine.Operation{ClientId: r.Task, Input: nlIn{kind: "add", id: id}, Call: int64(r.AddInv), Return: int64(end)})
				if r.AddRet != 0 {
					ops = append(ops, porcupine.Operation{ClientId: r.Task, Input: nlIn{kind: "wait", id: id}, Call: int64(r.AddInv), Return: int64(r.AddRet)})
					desc += fmt.Sprintf(" t%d:wait[#%d,#%d]", r.Task, r.AddInv, r.AddRet)
				} else {
					pendMask |= 1 << uint(id)
					pend = append(pend, r)
					desc += fmt.Sprintf(" t%d:wait[#%d,blocked]", r.Task, r.AddInv)
				}
				continue
			}
			if r.AddRet == 0 {
				continue
			}
			if id >= 64 {
				return "", ""
			}
			ops = append(ops, porcupine.Operation{ClientId: r.Task, Input: nlIn{kind: "add", id: id}, Call: int64(r.AddInv), Return: int64(r.AddRet)})
			if r.Ret != 0 {
				ops = append(ops, porcupine.Operation{ClientId: r.Task, Input: nlIn{kind: "wait", id: id}, Call: int64(r.AddRet), Return: int64(r.Ret)})
				desc += fmt.Sprintf(" t%d:wait(ticket %d)[#%d,#%d]", r.Task, id, r.AddRet, r.Ret)
			} else {
				pendMask |= 1 << uint(id)
				pend = append(pend, r)
				desc += fmt.Sprintf(" t%d:wait(ticket %d)[#%d,blocked]", r.Task, id, r.AddRet)
			}
		case "one", "all", "signal", "broadcast":
			k := "one"
			if r.Op.K == "all" || r.Op.K == "broadcast" {
				k = "all"
			}
			inv, ret := r.Inv, r.Ret
			if viaCond {
				inv, ret = r.AddInv, r.AddRet
				if inv == 0 {
					continue
				}
			}
			if ret == 0 {
				// a notify that never returned (blocked on L): may or may not have taken effect: not generated
				continue
			}
			ops = append(ops, porcupine.Operation{ClientId: r.Task, Input: nlIn{kind: k}, Call: int64(inv), Return: int64(ret)})
			desc += fmt.Sprintf(" t%d:%s[#%d,#%d]", r.Task, k, inv, ret)
		}
	}
	if len(ops) == 0 {
		return "", ""
	}
	m := model.ToModel()
	// (1) the property's clause: every wait that returned is explained by a notify issued after it began
	switch porcupine.CheckOperationsTimeout(m, ops, 5*time.Second) {
	case porcupine.Unknown:
		res.Counters["porcupine-unknown"]++
		return "", ""
	case porcupine.Illegal:
		res.Counters["porcupine-illegal"]++
		return "wait-returned-without-notify", "a Wait returned although no Signal/Broadcast issued after it began waiting can account for it:" + desc
	}
	res.Counters["porcupine-ok"]++
	// (2) no lost wake-up: the waiters still blocked at quiescence were not released by any notify
	if w.s.End == sim.EndQuiescent && pendMask != 0 {
		ops2 := append(ops, porcupine.Operation{ClientId: 99, Input: nlIn{kind: "final", mask: pendMask}, Call: int64(ms + 2), Return: int64(ms + 3)})
		switch porcupine.CheckOperationsTimeout(m, ops2, 5*time.Second) {
		case porcupine.Unknown:
			res.Counters["porcupine-unknown"]++
		case porcupine.Illegal:
			res.Counters["porcupine-illegal"]++
			return "lost-wakeup", fmt.Sprintf("t%d op%d is still blocked in Wait although the notifies issued must have released it:%s", pend[0].Task, pend[0].Idx, desc)
		default:
			res.Counters["porcupine-ok"]++
		}
	}
	return "", ""
}

// ---- Mutex / RWMutex: exclusion is checked in-run; here: admission after release ---------------

func checkMutex(w *world, recs []*opRec) (string, string) {
	if w.s.End != sim.EndQuiescent {
		return "", ""
	}
	// nobody holds a mutex at quiescence (holders always unlock), so every blocked Lock is stuck
	for _, r := range recs {
		if r.Inv != 0 && r.Ret == 0 && r.CritIn == 0 {
			return "stuck", fmt.Sprintf("Mutex #%d: t%d op%d is blocked in Lock although no task holds the mutex", r.Op.A, r.Task, r.Idx)
		}
	}
	return "", ""
}

func checkRW(w *world, recs []*opRec) (string, string) {
	if w.s.End != sim.EndQuiescent {
		return "", ""
	}
	for _, r := range recs {
		if r.Inv != 0 && r.Ret == 0 && r.CritIn == 0 {
			return "stuck", fmt.Sprintf("RWMutex: t%d op%d (%s) is blocked although no task holds the lock", r.Task, r.Idx, r.Op.K)
		}
	}
	return "", ""
}

// ---- WaitGroup: linearizable against a counter; Wait returns only at zero ------------------------

func checkWG(w *world, recs []*opRec, res *driver.Result) (string, string) {
	type wgIn struct {
		kind  string
		delta int
	}
	model := porcupine.Model{
		Init: func() interface{} { return w.sc.Init[0] },
		Step: func(st, in, out interface{}) (bool, interface{}) {
			c := st.(int)
			i := in.(wgIn)
			switch i.kind {
			case "add":
				c += i.delta
				return c >= 0, c
			case "wait":
				return c == 0, c
			case "final":
				return c != 0, c
			}
			return false, c
		},
	}
	var ops []porcupine.Operation
	var pend []*opRec
	desc := fmt.Sprintf(" init=%d", w.sc.Init[0])
	ms := maxStamp(recs)
	for _, r := range recs {
		if r.Inv == 0 {
			continue
		}
		switch r.Op.K {
		case "add", "done":
			d := -1
			if r.Op.K == "add" {
				d = r.Op.V
			}
			ret := r.Ret
			if ret == 0 {
				continue
			}
			ops = append(ops, porcupine.Operation{ClientId: r.Task, Input: wgIn{"add", d}, Call: int64(r.Inv), Return: int64(ret)})
			desc += fmt.Sprintf(" t%d:add(%d)[#%d,#%d]", r.Task, d, r.Inv, ret)
		case "wait":
			if r.Ret == 0 {
				pend = append(pend, r)
				continue
			}
			ops = append(ops, porcupine.Operation{ClientId: r.Task, Input: wgIn{"wait", 0}, Call: int64(r.Inv), Return: int64(r.Ret)})
			desc += fmt.Sprintf(" t%d:wait[#%d,#%d]", r.Task, r.Inv, r.Ret)
		}
	}
	if len(ops) > 0 {
		switch porcupine.CheckOperationsTimeout(model, ops, 5*time.Second) {
		case porcupine.Unknown:
			res.Counters["porcupine-unknown"]++
			return "", ""
		case porcupine.Illegal:
			res.Counters["porcupine-illegal"]++
			return "wait-returned-before-zero", "WaitGroup.Wait returned although the counter cannot have been zero during the call:" + desc
		}
		res.Counters["porcupine-ok"]++
	}
	if w.s.End == sim.EndQuiescent && len(pend) > 0 {
		// blocked Wait is legitimate only if the counter is not zero at the end
		ops2 := append(ops, porcupine.Operation{ClientId: 99, Input: wgIn{"final", 0}, Call: int64(ms + 2), Return: int64(ms + 3)})
		if porcupine.CheckOperationsTimeout(model, ops2, 5*time.Second) == porcupine.Illegal {
			return "stuck", fmt.Sprintf("WaitGroup: t%d op%d is blocked in Wait although the counter reached zero:%s", pend[0].Task, pend[0].Idx, desc)
		}
	}
	return "", ""
}

// ---- Once ------------------------------------------------------------------------------------------

func checkOnce(w *world, recs []*opRec) (string, string) {
	completed := 0
	for _, r := range recs {
		if r.Ret != 0 {
			completed++
		}
	}
	if w.info.OnceRuns > 1 {
		return "once-ran-twice", fmt.Sprintf("the function passed to Once.Do ran %d times", w.info.OnceRuns)
	}
	if completed > 0 && w.info.OnceRuns == 0 {
		return "once-never-ran", "a Do returned although the function never ran"
	}
	for _, r := range recs {
		if r.Ret != 0 && (w.info.OnceEnd == 0 || r.Ret < w.info.OnceEnd) {
			return "once-returned-early", fmt.Sprintf("t%d op%d: Do returned at #%d before the function finished (#%d)", r.Task, r.Idx, r.Ret, w.info.OnceEnd)
		}
	}
	if w.s.End == sim.EndQuiescent && w.info.OnceEnd != 0 {
		for _, r := range recs {
			if r.Inv != 0 && r.Ret == 0 {
				return "stuck", fmt.Sprintf("Once: t%d op%d is blocked in Do although the function has finished", r.Task, r.Idx)
			}
		}
	}
	return "", ""
}

// ---- atomic.Value: linearizable register -----------------------------------------------------------------

func checkValue(w *world, recs []*opRec, res *driver.Result) (string, string) {
	type in struct {
		kind     string
		old, new int
	}
	type out struct {
		val int
		ok  bool
	}
	model := porcupine.Model{
		Init: func() interface{} { return -1 },
		Step: func(st, i0, o0 interface{}) (bool, interface{}) {
			cur := st.(int)
			i := i0.(in)
			o := o0.(out)
			switch i.kind {
			case "load":
				return o.val == cur, cur
			case "store":
				return true, i.new
			case "swap":
				return o.val == cur, i.new
			case "cas":
				old := i.old
				if old == 0 {
					old = -1 // CompareAndSwap(nil, new)
				}
				if cur == old {
					return o.ok, i.new
				}
				return !o.ok, cur
			}
			return false, cur
		},
	}
	var ops []porcupine.Operation
	desc := ""
	for _, r := range recs {
		if r.Inv == 0 || r.Ret == 0 {
			continue // tasks never block here; an unfinished op means the run was cut
		}
		ops = append(ops, porcupine.Operation{ClientId: r.Task, Input: in{r.Op.K, r.Op.A, r.Op.V}, Output: out{r.Val, r.OK}, Call: int64(r.Inv), Return: int64(r.Ret)})
		desc += fmt.Sprintf(" t%d:%s->%s[#%d,#%d]", r.Task, r.Op, r.Result(), r.Inv, r.Ret)
	}
	if len(ops) == 0 {
		return "", ""
	}
	switch porcupine.CheckOperationsTimeout(model, ops, 5*time.Second) {
	case porcupine.Unknown:
		res.Counters["porcupine-unknown"]++
	case porcupine.Illegal:
		res.Counters["porcupine-illegal"]++
		return "value-not-linearizable", "atomic.Value history has no linearization against a register:" + desc
	default:
		res.Counters["porcupine-ok"]++
	}
	if w.s.End == sim.EndQuiescent {
		for _, r := range recs {
			if r.Inv != 0 && r.Ret == 0 {
				return "stuck", fmt.Sprintf("atomic.Value: t%d op%d never returned", r.Task, r.Idx)
			}
		}
	}
	return "", ""
}
