// C13: the build cache never serves stale code, and survives crashes.
// System under test: the real llgo binary built from the working tree (with a
// counting fault seam in the cache code), driving generated multi-package
// modules through histories of edits, rebuilds, crashes and disk errors with a
// simulated file-time clock.
package main

import (
	"bytes"
	"context"
	"encoding/json"
	"fmt"
	"os"
	"os/exec"
	"path/filepath"
	"sort"
	"strconv"
	"strings"
	"syscall"
	"time"

	"verif/driver"
	"verif/sim"
)

type PkgSpec struct {
	Name    string   `json:"name"`
	Imports []string `json:"imports,omitempty"`
	HasC    bool     `json:"c,omitempty"`     // C side file named by LLGoFiles
	TwoC    bool     `json:"c2,omitempty"`    // a second C file in the same LLGoFiles list
	LinkLib bool     `json:"lib,omitempty"`   // needs a link argument recorded in the cache manifest (LLGoPackage = "link: -lbz2")
	HasTag  bool     `json:"tag,omitempty"`   // file variant selected by build tag "alt"
	HasX    bool     `json:"x,omitempty"`     // string variable overridable with -X
	Embed   bool     `json:"embed,omitempty"` // //go:embed data file
	Decl    bool     `json:"decl,omitempty"`   // imports a declaration-only package (LLGoPackage = "decl") whose constant is compiled into it
	SymSrc  bool     `json:"symsrc,omitempty"` // one of its Go files is a symbolic link to a file outside the package directory
	HasH    bool     `json:"h,omitempty"`     // its C file includes a header from its own directory
	CDef    bool     `json:"cdef,omitempty"`  // LLGoFiles = "$C13_CDEF: ..." - the C file is compiled with flags taken from an environment variable
	Ext     bool     `json:"ext,omitempty"`   // lives in a second module (c13ext) that the main module requires at v1.0.0 and replaces by a local directory
}

type Step struct {
	K       string `json:"k"`   // edit-src edit-src-same edit-c edit-h edit-embed edit-decl edit-link tag x abi opt env cenv cflags repro build noop clear crash fserr
	Pkg     int    `json:"pkg"` // package index for edits
	Arg     int    `json:"arg,omitempty"`
	Torn    bool   `json:"torn,omitempty"`
	FromEnd bool   `json:"from_end,omitempty"` // crash/fserr: Arg counts back from the number of cache operations of the previous build
	Sched   string `json:"sched,omitempty"`    // race: "aligned" forces the schedule that keeps the builders level on the package list
	Target  string `json:"target,omitempty"`   // crash: die just before publishing the "manifest" or the "archive" of package Pkg; fserr: fail the "archive-write", "archive-close" or "manifest-write" of package Pkg
}

type Scenario struct {
	Pkgs  []PkgSpec `json:"pkgs"`
	Clock string    `json:"clock"` // normal stall backwards coarse
	Steps []Step    `json:"steps"`
}

type prop struct{}

func (prop) ID() string { return "C13" }

func (prop) Decode(b []byte) (driver.Scenario, error) {
	var sc Scenario
	err := json.Unmarshal(b, &sc)
	return &sc, err
}

var (
	llgoBin  = os.Getenv("VERIF_C13_LLGO")
	shimDir  = os.Getenv("VERIF_C13_SHIM")
	warmDir  = os.Getenv("VERIF_C13_WARM")
	tmpRoot  = os.Getenv("VERIF_C13_TMP")
	go123    = os.Getenv("VERIF_C13_GO123")
	repoDir  = os.Getenv("VERIF_C13_REPO")
	useEmbed = os.Getenv("VERIF_C13_EMBED") == "1"
)

// battery is a fixed history that touches every kind of build input once; the
// first runs of every batch are batteries (one per clock mode), because a quick
// batch affords only a dozen histories and must not depend on luck for the
// basic cases.  Random histories follow.
func battery(clock string, embed, ext bool) *Scenario {
	sc := &Scenario{Clock: clock}
	sc.Pkgs = []PkgSpec{
		{Name: "p0", Imports: []string{"p1", "p3"}, HasTag: true},
		{Name: "p1", Imports: []string{"p2"}, Decl: true, SymSrc: true},
		{Name: "p2", Imports: []string{"p3"}, HasC: true, TwoC: true, LinkLib: haveBz2},
		{Name: "p3", HasC: true, CDef: true, HasH: true, Embed: embed, Ext: ext},
		// a second importer of the shared leaf that nothing else leads to: whichever
		// of p2 and p4 is fingerprinted second, only its own record of p3 can tell it
		// that p3 changed
		{Name: "p4", Imports: []string{"p3"}},
	}
	b := Step{K: "build"}
	n := Step{K: "noop"} // a rebuild without any change: it reuses what the build before it left in the cache
	sc.Steps = []Step{{K: "crash", Pkg: 2, Target: "lib-manifest"}, b, n, // the very first build dies between the archive and the manifest of the link-argument package
		{K: "opt", Arg: 1}, b, // -O0: the optimisation level reaches every C compilation (__OPTIMIZE__) and every package's key
		{K: "opt", Arg: 2}, b, // -Oz
		{K: "opt", Arg: 0}, b, // back to the default level: the archives of the first build must not have been replaced by others
		{K: "edit-src-same", Pkg: 3}, b, // shared leaf: both importers and their importers must follow
		{K: "edit-c", Pkg: 2, Arg: 1}, b, // second C file
		{K: "edit-c", Pkg: 2, Arg: 0}, b,
		{K: "edit-src", Pkg: 1}, {K: "crash", Pkg: 1, Target: "manifest"}, b,
		{K: "edit-c", Pkg: 2, Arg: 1}, {K: "crash", Pkg: 2, Target: "manifest"}, b, n, // archive without manifest of a package with link arguments
		{K: "edit-src", Pkg: 3}, {K: "race", Arg: 0}, b, n, // two builders of the same sources on one cache: both compile and publish the same entries
		{K: "edit-c", Pkg: 3}, {K: "race", Arg: 8, Sched: "aligned"}, b, n, // two builders at different optimisation levels: what one compiles must not end up in the other's program or under the other's key
		{K: "edit-c", Pkg: 2, Arg: 0}, {K: "race", Arg: 1 | 4, Target: "archive-write"}, b, n, // two builders under different tag settings; one of them is killed half-way through an archive
		{K: "edit-src", Pkg: 2}, b, {K: "powercut", Arg: 0}, b, n, // power fails after a build: what it published without syncing is there by name only
		{K: "edit-c", Pkg: 2, Arg: 1}, {K: "edit-src", Pkg: 1}, b, {K: "powercut", Arg: 2}, b, n, // ... or half of it
		{K: "tag"}, b,
		{K: "edit-src-same", Pkg: 2}, {K: "crash", Pkg: 2, Target: "archive"}, b,
		n,
		{K: "edit-src-same", Pkg: 2}, {K: "crash", Pkg: 2, Target: "archive-write", Torn: true}, b, n, // killed half-way through a write into the archive's cache file
		{K: "edit-c", Pkg: 2, Arg: 0}, {K: "fserr", Pkg: 2, Target: "archive-write"}, b, n, // disk full while the archive is copied into the cache
		{K: "edit-src", Pkg: 1}, {K: "fserr", Pkg: 1, Target: "archive-close"}, b, n,
		{K: "edit-src-same", Pkg: 3}, {K: "fserr", Pkg: 3, Target: "manifest-write"}, b, n,
		{K: "clear"}, {K: "fserr", Pkg: 2, Target: "lib-manifest-write"}, b, n, // disk full while the manifest of the link-argument package is written
		{K: "clear"}, {K: "crash", Pkg: 2, Target: "lib-manifest-write"}, b, n, // killed there
		{K: "clear"}, {K: "race", Arg: 2 | 4, Target: "manifest"}, b, n, // three builders on an empty cache, one killed between an archive and its manifest
		{K: "abi", Arg: 1}, b,
		{K: "repro"}, // the same sources compiled by two compiler processes: byte-identical intermediate code
		{K: "abi", Arg: 2}, {K: "env", Arg: 1}, b, // LLGO_TRACE=1: every function announces itself; all packages must be recompiled
		{K: "edit-src-same", Pkg: 3}, b,
		{K: "env", Arg: 0}, b, // and back: the traced archives must not be reused
		{K: "cenv", Arg: 3}, b, // the environment variable in p3's LLGoFiles compile flags changes what its C file computes
		{K: "cenv", Arg: 0}, b,
		{K: "cflags", Arg: 2}, b, // CFLAGS reaches every C compilation
		{K: "cflags", Arg: 0}, b,
		{K: "edit-h", Pkg: 3}, b, // a header p3's C file includes from its own directory
		{K: "edit-h", Pkg: 3, Arg: 1}, b, // a header that header includes from a sub-directory
		{K: "edit-decl", Pkg: 1}, b, // a constant of a declaration-only package compiled into p1
		{K: "edit-link", Pkg: 1}, b, // the target of a symbolic link among p1's source files
	}
	if embed {
		sc.Steps = append(sc.Steps, Step{K: "edit-embed", Pkg: 3}, b)
	}
	return sc
}

func (prop) Generate(rng *sim.Rng, tier string, runIndex int) driver.Scenario {
	if f := os.Getenv("VERIF_C13_SCENARIO"); f != "" && runIndex == 0 {
		// experiments: run index 0 is the scenario in this file (with -one 0: generating mode, fresh decisions)
		if b, err := os.ReadFile(f); err == nil {
			var sc Scenario
			if json.Unmarshal(b, &sc) == nil {
				return &sc
			}
		}
	}
	if runIndex < 4 {
		return battery([]string{"normal", "coarse", "stall", "backwards"}[runIndex], useEmbed && runIndex == 0, runIndex%2 == 1)
	}
	sc := &Scenario{}
	n := rng.Range(3, 4)
	if tier == "thorough" && rng.Intn(3) == 0 {
		n = rng.Range(2, 6)
	}
	embedWorld := useEmbed && rng.Intn(4) == 0
	for i := 0; i < n; i++ {
		p := PkgSpec{Name: fmt.Sprintf("p%d", i)}
		// acyclic: a package may import packages with a higher index
		for j := i + 1; j < n; j++ {
			if rng.Intn(2) == 0 {
				p.Imports = append(p.Imports, fmt.Sprintf("p%d", j))
			}
		}
		p.HasC = rng.Intn(3) == 0
		p.TwoC = p.HasC && rng.Intn(2) == 0
		p.LinkLib = p.HasC && haveBz2 && rng.Intn(2) == 0
		p.CDef = p.HasC && rng.Intn(2) == 0
		p.HasH = p.HasC && rng.Intn(2) == 0
		p.Decl = rng.Intn(3) == 0
		p.SymSrc = rng.Intn(3) == 0
		p.HasTag = rng.Intn(3) == 0
		p.HasX = false // no command-line path to -X string overrides exists at this commit
		p.Embed = embedWorld && rng.Intn(2) == 0
		sc.Pkgs = append(sc.Pkgs, p)
	}
	// builds are expensive (seconds each): make every world rich.  The last
	// package is a shared dependency of two others (a diamond), one package has
	// two C files and a link argument, one has a tag-selected file.
	if n >= 3 {
		last := fmt.Sprintf("p%d", n-1)
		for _, i := range []int{0, n - 2} {
			has := false
			for _, im := range sc.Pkgs[i].Imports {
				has = has || im == last
			}
			if !has {
				sc.Pkgs[i].Imports = append(sc.Pkgs[i].Imports, last)
			}
		}
	}
	ci := rng.Intn(n)
	sc.Pkgs[ci].HasC, sc.Pkgs[ci].TwoC, sc.Pkgs[ci].LinkLib = true, true, haveBz2
	sc.Pkgs[rng.Intn(n)].HasTag = true
	if embedWorld {
		sc.Pkgs[rng.Intn(n)].Embed = true
	}
	if rng.Intn(3) == 0 {
		// the shared leaf lives in a second module, required at a version and replaced by a directory
		sc.Pkgs[n-1].Ext, sc.Pkgs[n-1].LinkLib, sc.Pkgs[n-1].Decl = true, false, false
	}
	sc.Clock = []string{"normal", "normal", "normal", "stall", "backwards", "coarse"}[rng.Intn(6)]
	ns := rng.Range(6, 10)
	if tier == "thorough" {
		ns = rng.Range(4, 14)
	}
	libFault := false
	if rng.Intn(4) == 0 {
		for i, p := range sc.Pkgs {
			if p.LinkLib {
				switch rng.Intn(3) {
				case 0:
					sc.Steps = append(sc.Steps, Step{K: "crash", Pkg: i, Target: "lib-manifest"})
				case 1:
					sc.Steps = append(sc.Steps, Step{K: "crash", Pkg: i, Target: "lib-manifest-write", Torn: rng.Bool()})
				case 2:
					sc.Steps = append(sc.Steps, Step{K: "fserr", Pkg: i, Target: "lib-manifest-write"})
				}
				libFault = true
				break
			}
		}
	}
	sc.Steps = append(sc.Steps, Step{K: "build"})
	if libFault {
		sc.Steps = append(sc.Steps, Step{K: "noop"}) // reuses what the faulted build left behind
	}
	for len(sc.Steps) < ns {
		pi := rng.Intn(n)
		p := sc.Pkgs[pi]
		var st Step
		switch r := rng.Intn(16); {
		case p.HasH && rng.Intn(8) == 0:
			st = Step{K: "edit-h", Pkg: pi, Arg: rng.Intn(2)}
		case p.HasC && rng.Intn(16) == 0:
			st = Step{K: "cflags", Arg: rng.Intn(3)}
		case p.Decl && rng.Intn(8) == 0:
			st = Step{K: "edit-decl", Pkg: pi}
		case p.SymSrc && rng.Intn(8) == 0:
			st = Step{K: "edit-link", Pkg: pi}
		case r < 3:
			st = Step{K: "edit-src", Pkg: pi}
		case r < 5:
			st = Step{K: "edit-src-same", Pkg: pi}
		case r < 8 && p.HasC:
			st = Step{K: "edit-c", Pkg: pi, Arg: rng.Intn(2)}
		case r < 9 && p.Embed:
			st = Step{K: "edit-embed", Pkg: pi}
		case r == 9 && p.HasTag:
			st = Step{K: "tag"}
		case r == 10 && rng.Bool():
			st = Step{K: "abi", Arg: rng.Intn(3)}
		case r == 10:
			st = Step{K: "opt", Arg: rng.Intn(3)}
		case r == 11:
			st = Step{K: "noop"}
		case r == 12 && rng.Bool():
			st = Step{K: "powercut", Arg: rng.Intn(3)}
		case r == 12:
			st = Step{K: "clear"}
		case r == 15 && rng.Intn(3) == 0:
			st = Step{K: "env", Arg: rng.Intn(2)}
		case r == 15 && rng.Intn(2) == 0:
			st = Step{K: "cenv", Arg: rng.Intn(4)}
		case r == 15:
			st = Step{K: "repro"}
		case r == 13 || r == 14:
			// a crash (or disk error) during the next build, at cache operation k
			st = Step{K: []string{"crash", "crash", "fserr"}[rng.Intn(3)], Arg: rng.Range(1, 60), Torn: rng.Intn(3) == 0}
			if rng.Bool() {
				// the publication of the user's packages happens at the end of a build
				st.FromEnd, st.Arg = true, rng.Range(0, 30)
			}
		default:
			st = Step{K: "edit-src", Pkg: pi}
		}
		sc.Steps = append(sc.Steps, st)
		if st.K != "noop" && st.K != "clear" && st.K != "crash" && st.K != "fserr" && st.K != "repro" && st.K != "powercut" {
			// every edit is followed by a rebuild (possibly an interrupted one first)
			targeted := false
			if rng.Intn(5) == 0 {
				// concurrent builders (2-3 processes, perhaps under another tag setting, perhaps one of them meeting a fault)
				rs := Step{K: "race", Arg: rng.Intn(16)}
				if rs.Arg&4 != 0 && rng.Bool() {
					rs.Target = []string{"archive-write", "manifest-write", "archive", "manifest"}[rng.Intn(4)]
				}
				sc.Steps = append(sc.Steps, rs)
				targeted = true
			} else if rng.Intn(4) == 0 {
				sc.Steps = append(sc.Steps, Step{K: []string{"crash", "fserr"}[rng.Intn(2)], Arg: rng.Range(0, 30), Torn: rng.Intn(3) == 0, FromEnd: true})
			} else if rng.Intn(4) == 0 && strings.HasPrefix(st.K, "edit") {
				// the build dies between publishing the edited package's archive and its manifest (or just before the archive)
				if rng.Bool() {
					sc.Steps = append(sc.Steps, Step{K: "crash", Pkg: st.Pkg, Target: []string{"manifest", "manifest", "archive", "archive-write", "manifest-write"}[rng.Intn(5)], Torn: rng.Bool()})
				} else {
					sc.Steps = append(sc.Steps, Step{K: "fserr", Pkg: st.Pkg, Target: []string{"archive-write", "archive-close", "manifest-write"}[rng.Intn(3)]})
				}
				targeted = true
			}
			sc.Steps = append(sc.Steps, Step{K: "build"})
			if targeted && rng.Bool() {
				sc.Steps = append(sc.Steps, Step{K: "noop"})
			}
		} else if st.K == "crash" || st.K == "fserr" || st.K == "clear" || st.K == "powercut" {
			sc.Steps = append(sc.Steps, Step{K: "build"})
		}
	}
	return sc
}

// ---- the model: what the program must print -------------------------------------------

type pkgState struct {
	srcVer   int // value of the source constant
	pad      int // different-size edits add padding
	cVal     int
	c2Val    int
	embedVer int
	xVal     string
	declVer  int
	cfgVer   int
	hVal     int
	hSub     int // value defined by the header in a sub-directory that the first header includes
}

type world struct {
	sc    *Scenario
	dir   string // module root
	cache string // XDG_CACHE_HOME
	st    []pkgState
	tag   bool
	abi   int
	opt   int   // optimisation level: 0 default (-O2), 1 -O0, 2 -Oz; C side files see it as __OPTIMIZE__ / __OPTIMIZE_SIZE__
	trace bool  // LLGO_TRACE=1
	cdef  int   // C13_CDEF=-DC13K=<cdef> (0: variable unset)
	gflag int   // CFLAGS=-DC13G=<gflag> (0: variable unset): reaches every C compilation
	clock int64 // simulated file-time clock (unix ns)
	log   []string
	keep  bool
	lastDur []string // durability records of the most recent build
}

// modOf is the module of package i; pkgDir its directory.
func (w *world) modOf(i int) string {
	if w.sc.Pkgs[i].Ext {
		return "c13ext"
	}
	return "c13mod"
}

func (w *world) pkgDir(i int) string {
	if w.sc.Pkgs[i].Ext {
		return filepath.Join(filepath.Dir(w.dir), "ext", w.sc.Pkgs[i].Name)
	}
	return filepath.Join(w.dir, w.sc.Pkgs[i].Name)
}

func (w *world) byName(name string) int {
	for i, p := range w.sc.Pkgs {
		if p.Name == name {
			return i
		}
	}
	return 0
}

func (w *world) logf(f string, a ...any) {
	if w.keep {
		w.log = append(w.log, fmt.Sprintf(f, a...))
	}
}

// line is what package i contributes: its own inputs plus the lines of its imports.
func (w *world) line(i int) string {
	p, s := w.sc.Pkgs[i], w.st[i]
	parts := []string{p.Name, fmt.Sprintf("src=v%04d", s.srcVer), "aux=23"}
	if p.HasC {
		c := s.cVal + 1000*w.gflag + 10000*[]int{1, 0, 2}[w.effOpt()]
		if p.CDef {
			c += 100 * w.cdef
		}
		if p.HasH {
			c += s.hVal + s.hSub
		}
		parts = append(parts, fmt.Sprintf("c=%d", c))
	}
	if p.TwoC {
		parts = append(parts, fmt.Sprintf("c2=%d", s.c2Val))
	}
	if p.LinkLib {
		parts = append(parts, "bz=49", "sym=4352") // first character of BZ2_bzlibVersion(): '1'; distance of the two linker-defined symbols
	}
	if p.Decl {
		parts = append(parts, fmt.Sprintf("d=d%02d", s.declVer))
	}
	if p.SymSrc {
		parts = append(parts, fmt.Sprintf("cfg=g%02d", s.cfgVer))
	}
	if p.HasTag {
		if w.tag {
			parts = append(parts, "tag=alt")
		} else {
			parts = append(parts, "tag=default")
		}
	}
	if p.HasX {
		parts = append(parts, "x="+s.xVal)
	}
	if p.Embed {
		parts = append(parts, fmt.Sprintf("embed=e%d", s.embedVer))
	}
	for _, im := range p.Imports {
		j, _ := strconv.Atoi(strings.TrimPrefix(im, "p"))
		// the dependency's constant is compiled into the importer; its Line() is linked
		parts = append(parts, fmt.Sprintf("K%d=v%04d", j, w.st[j].srcVer), "["+w.line(j)+"]")
	}
	return strings.Join(parts, " ")
}

func (w *world) expected() string {
	var sb strings.Builder
	for i := range w.sc.Pkgs {
		sb.WriteString(w.line(i) + "\n")
	}
	return sb.String()
}

// effOpt is the optimisation level builds of this world run at: worlds with
// embedded files are always built at -O0 (LLVM 14 cannot optimise what embed pulls in).
func (w *world) effOpt() int {
	for _, p := range w.sc.Pkgs {
		if p.Embed {
			return 1
		}
	}
	return w.opt
}

// ---- writing the module --------------------------------------------------------------

func (w *world) stamp(path string, edit bool) {
	// every write stamps the file's mtime from the simulated clock
	switch w.sc.Clock {
	case "normal":
		w.clock += 1_500_000_000
	case "stall":
		// the clock does not move: the edited file keeps its previous mtime
	case "backwards":
		w.clock -= 700_000_000
	case "coarse":
		w.clock += 400_000_000 // below the 2 s granularity applied next
	}
	t := w.clock
	if w.sc.Clock == "coarse" {
		t = t / 2_000_000_000 * 2_000_000_000
	}
	os.Chtimes(path, time.Unix(0, t), time.Unix(0, t))
}

func (w *world) write(path, content string) {
	os.MkdirAll(filepath.Dir(path), 0o755)
	os.WriteFile(path, []byte(content), 0o644)
	w.stamp(path, true)
}

func (w *world) writePkg(i int) {
	p, s := w.sc.Pkgs[i], w.st[i]
	d := w.pkgDir(i)
	var sb strings.Builder
	if p.LinkLib {
		fmt.Fprintf(&sb, "package %s\n\nimport (\n\t\"unsafe\"\n", p.Name)
	} else {
		fmt.Fprintf(&sb, "package %s\n\nimport (\n\t_ \"unsafe\"\n", p.Name)
	}
	if p.Decl {
		fmt.Fprintf(&sb, "\t\"c13mod/%sdecl\"\n", p.Name)
		w.writeDecl(i)
	}
	if p.Embed {
		sb.WriteString("\t_ \"embed\"\n")
	}
	for _, im := range p.Imports {
		fmt.Fprintf(&sb, "\t\"%s/%s\"\n", w.modOf(w.byName(im)), im)
	}
	if p.LinkLib {
		// a package that is nothing but link-name declarations and a link argument:
		// it needs no Go runtime, its only contribution to the program is "-lbz2"
		fmt.Fprintf(&sb, "\t\"c13mod/%slib\"\n", p.Name)
		w.write(filepath.Join(w.dir, p.Name+"lib", "lib.go"), fmt.Sprintf("package %slib\n\nimport _ \"unsafe\"\n\nconst LLGoPackage = \"link: -lbz2 -Xlinker --defsym=c13_%s_a=0x1100 -Xlinker --defsym=c13_%s_b=0x2200\"\n\n//go:linkname Version C.BZ2_bzlibVersion\nfunc Version() *int8\n\n// two symbols the linker defines: the link arguments repeat a token and must reach the linker as a sequence\n//\n//go:linkname SymA c13_%s_a\nvar SymA byte\n\n//go:linkname SymB c13_%s_b\nvar SymB byte\n", p.Name, p.Name, p.Name, p.Name, p.Name))
	}
	sb.WriteString(")\n\n")
	fmt.Fprintf(&sb, "const srcVer = \"v%04d\"\n\n// SrcVer is compiled into importers.\nconst SrcVer = srcVer\n%s\n", s.srcVer, strings.Repeat("// padding\n", s.pad))
	if p.HasC {
		files := "_wrap/w.c"
		if p.TwoC {
			files = "_wrap/w.c; _wrap/w2.c"
		}
		if p.CDef {
			// compile flags from the environment, as in "$(pkg-config --cflags x): file.c"
			files = "$C13_CDEF: " + files
		}
		fmt.Fprintf(&sb, "const (\n\tLLGoFiles   = \"%s\"\n\tLLGoPackage = \"link\"\n)\n\n//go:linkname cval C.%s_cval\nfunc cval() int32\n\n", files, p.Name)
		if p.TwoC {
			fmt.Fprintf(&sb, "//go:linkname cval2 C.%s_cval2\nfunc cval2() int32\n\n", p.Name)
		}
	}
	if p.HasX {
		sb.WriteString("var X = \"x0\"\n\n")
	}
	if p.Embed {
		sb.WriteString("//go:embed data.txt\nvar data string\n\n")
	}
	sb.WriteString("func itoa(n int32) string {\n\tif n == 0 {\n\t\treturn \"0\"\n\t}\n\ts := \"\"\n\tfor n > 0 {\n\t\ts = string(rune('0'+n%10)) + s\n\t\tn /= 10\n\t}\n\treturn s\n}\n\n")
	sb.WriteString("func Line() string {\n\ts := \"" + p.Name + " src=\" + srcVer + \" aux=\" + itoa(int32(auxSum()))\n")
	if p.HasC {
		sb.WriteString("\ts += \" c=\" + itoa(cval())\n")
	}
	if p.TwoC {
		sb.WriteString("\ts += \" c2=\" + itoa(cval2())\n")
	}
	if p.LinkLib {
		fmt.Fprintf(&sb, "\ts += \" bz=\" + itoa(int32(*%slib.Version()))\n", p.Name)
		fmt.Fprintf(&sb, "\ts += \" sym=\" + itoa(int32(uintptr(unsafe.Pointer(&%slib.SymB))-uintptr(unsafe.Pointer(&%slib.SymA))))\n", p.Name, p.Name)
	}
	if p.Decl {
		fmt.Fprintf(&sb, "\ts += \" d=\" + %sdecl.DVal\n", p.Name)
	}
	if p.SymSrc {
		sb.WriteString("\ts += \" cfg=\" + cfgVal\n")
	}
	if p.HasTag {
		sb.WriteString("\ts += \" tag=\" + variant\n")
	}
	if p.HasX {
		sb.WriteString("\ts += \" x=\" + X\n")
	}
	if p.Embed {
		sb.WriteString("\ts += \" embed=\" + data\n")
	}
	for _, im := range p.Imports {
		fmt.Fprintf(&sb, "\ts += \" K%s=\" + %s.SrcVer + \" [\" + %s.Line() + \"]\"\n", strings.TrimPrefix(im, "p"), im, im)
	}
	sb.WriteString("\treturn s\n}\n")
	w.write(filepath.Join(d, p.Name+".go"), sb.String())
}

// writeDecl writes package i's declaration-only companion.
func (w *world) writeDecl(i int) {
	name := w.sc.Pkgs[i].Name
	w.write(filepath.Join(w.dir, name+"decl", "decl.go"), fmt.Sprintf("package %sdecl\n\nconst LLGoPackage = \"decl\"\n\n// DVal is compiled into importers.\nconst DVal = \"d%02d\"\n", name, w.st[i].declVer))
}

// cfgTarget is the file package i's symbolic link points to.
func (w *world) cfgTarget(i int) string {
	return filepath.Join(filepath.Dir(w.dir), "cfgsrc", w.sc.Pkgs[i].Name+"_cfg.go.in")
}

func (w *world) writeCfg(i int) {
	w.write(w.cfgTarget(i), fmt.Sprintf("package %s\n\nconst cfgVal = \"g%02d\"\n", w.sc.Pkgs[i].Name, w.st[i].cfgVer))
}

// auxSource is a second file of every package: several named types with
// methods, an interface, function-local types converted to interfaces and told
// apart by a type switch.  It gives the compiler many package members, methods
// and type descriptors to emit (in a reproducible order); it never changes.
func auxSource(name string) string {
	return "package " + name + `

type shape interface{ Area() int }

type sq struct{ s int }

func (x sq) Area() int { return x.s * x.s }

type rect struct{ w, h int }

func (x rect) Area() int { return x.w * x.h }

type tri struct{ b, h int }

func (x tri) Area() int { return x.b * x.h / 2 }

type circ struct{ r int }

func (x circ) Area() int { return 3 * x.r * x.r }

type dot struct{}

func (dot) Area() int { return 0 }

func kind(v any) int {
	type cell struct{ a int }
	type pair struct{ a, b int }
	switch v.(type) {
	case cell:
		return 100
	case pair:
		return 200
	case shape:
		return 0
	}
	return 0
}

func auxSum() int {
	type cell struct{ a int }
	type pair struct{ a, b int }
	boxed := []any{cell{1}, pair{1, 2}, dot{}}
	n := 0
	for _, s := range []shape{sq{2}, rect{2, 3}, tri{4, 5}, circ{1}, dot{}} {
		n += s.Area()
	}
	for _, b := range boxed {
		n += kind(b) // these local types are not kind's local types
	}
	return n
}
`
}

func (w *world) cSource(i int) string {
	p := w.sc.Pkgs[i]
	src := "#ifndef C13K\n#define C13K 0\n#endif\n#ifndef C13G\n#define C13G 0\n#endif\n"
	src += "#if defined(__OPTIMIZE_SIZE__)\n#define C13O 2\n#elif defined(__OPTIMIZE__)\n#define C13O 1\n#else\n#define C13O 0\n#endif\n"
	if p.HasH {
		src += "#include \"w.h\"\n"
	} else {
		src += "#define HOFF 0\n"
	}
	src += fmt.Sprintf("int %s_cval(void) { return %d + 100 * C13K + 1000 * C13G + 10000 * C13O + HOFF; }\n", p.Name, w.st[i].cVal)
	return src
}

func (w *world) writeAll() {
	anyExt := false
	for _, p := range w.sc.Pkgs {
		anyExt = anyExt || p.Ext
	}
	if anyExt {
		w.write(filepath.Join(w.dir, "go.mod"), "module c13mod\n\ngo 1.23\n\nrequire c13ext v1.0.0\n\nreplace c13ext => ../ext\n")
		w.write(filepath.Join(filepath.Dir(w.dir), "ext", "go.mod"), "module c13ext\n\ngo 1.23\n")
	} else {
		w.write(filepath.Join(w.dir, "go.mod"), "module c13mod\n\ngo 1.23\n")
	}
	var mb strings.Builder
	mb.WriteString("package main\n\nimport (\n")
	for i, p := range w.sc.Pkgs {
		fmt.Fprintf(&mb, "\t\"%s/%s\"\n", w.modOf(i), p.Name)
	}
	mb.WriteString(")\n\nfunc main() {\n")
	for _, p := range w.sc.Pkgs {
		fmt.Fprintf(&mb, "\tprintln(%s.Line())\n", p.Name)
	}
	mb.WriteString("}\n")
	w.write(filepath.Join(w.dir, "main.go"), mb.String())
	for i, p := range w.sc.Pkgs {
		w.writePkg(i)
		d := w.pkgDir(i)
		w.write(filepath.Join(d, p.Name+"_aux.go"), auxSource(p.Name))
		if p.SymSrc {
			w.writeCfg(i)
			rel, _ := filepath.Rel(d, w.cfgTarget(i))
			os.Symlink(rel, filepath.Join(d, p.Name+"_cfg.go"))
		}
		if p.HasC {
			w.write(filepath.Join(d, "_wrap", "w.c"), w.cSource(i))
		}
		if p.TwoC {
			w.write(filepath.Join(d, "_wrap", "w2.c"), fmt.Sprintf("int %s_cval2(void) { return %d; }\n", p.Name, w.st[i].c2Val))
		}
		if p.HasH {
			w.write(filepath.Join(d, "_wrap", "w.h"), fmt.Sprintf("#include \"inc/v.h\"\n#define HOFF (%d + HSUB)\n", w.st[i].hVal))
			w.write(filepath.Join(d, "_wrap", "inc", "v.h"), fmt.Sprintf("#define HSUB %d\n", w.st[i].hSub))
		}
		if p.HasTag {
			w.write(filepath.Join(d, "variant_default.go"), "//go:build !alt\n\npackage "+p.Name+"\n\nconst variant = \"default\"\n")
			w.write(filepath.Join(d, "variant_alt.go"), "//go:build alt\n\npackage "+p.Name+"\n\nconst variant = \"alt\"\n")
		}
		if p.Embed {
			w.write(filepath.Join(d, "data.txt"), fmt.Sprintf("e%d", w.st[i].embedVer))
		}
	}
}

// ---- running llgo ---------------------------------------------------------------------

type buildResult struct {
	ok       bool
	killed   bool
	output   string // program output (standard error: println)
	stdout   string // standard output: the "call <function>" lines of a traced program
	buildLog string
	ops      []string // cache operations performed (from the seam's log)
	dur      []string // "sync <file>" / "rename <old> <new>" records of the cache code (for a simulated power cut)
	hits     int
}

// buildArgs is the llgo command line for the world's current configuration.
func (w *world) buildArgs(out string) []string {
	args := []string{"build", "-v", "-o", out}
	switch w.effOpt() {
	case 1:
		args = append(args, "-O0")
	case 2:
		args = append(args, "-Oz")
	}
	// a first tag that selects nothing is always present, so that the interesting
	// tag is the last of several
	if w.tag {
		args = append(args, "-tags", "verifbase,alt")
	} else {
		args = append(args, "-tags", "verifbase")
	}
	args = append(args, "-abi", strconv.Itoa(w.abi))
	var xs []string
	for i, p := range w.sc.Pkgs {
		if p.HasX && w.st[i].xVal != "x0" {
			xs = append(xs, fmt.Sprintf("-X c13mod/%s.X=%s", p.Name, w.st[i].xVal))
		}
	}
	if len(xs) > 0 {
		args = append(args, "-ldflags", strings.Join(xs, " "))
	}
	return append(args, ".")
}

func (w *world) baseEnv(cache string) []string {
	// TMPDIR: llgo leaves its temporary objects and archives behind; they go with the check's scratch directory
	return []string{"PATH=" + go123 + ":/usr/bin:/bin", "HOME=" + tmpRoot, "TMPDIR=" + tmpRoot, "LLGO_ROOT=" + repoDir, "LLVM_CONFIG=" + shimDir + "/bin/llvm-config",
		"GOTOOLCHAIN=local", "GOFLAGS=-mod=mod", "GOPROXY=off", "GOWORK=off", "XDG_CACHE_HOME=" + cache,
		"GOCACHE=" + goEnv("GOCACHE"), "GOMODCACHE=" + goEnv("GOMODCACHE")}
}

func (w *world) build(crashAt int, fserr int, torn bool, match ...string) buildResult {
	args := w.buildArgs(filepath.Join(w.dir, "prog.out"))
	oplog := filepath.Join(w.dir, "oplog.txt")
	os.Remove(oplog)
	os.Remove(filepath.Join(w.dir, "prog.out"))
	bctx, bcancel := context.WithTimeout(context.Background(), 15*time.Minute)
	defer bcancel()
	cmd := exec.CommandContext(bctx, llgoBin, args...)
	cmd.Dir = w.dir
	durlog := filepath.Join(w.dir, "durlog.txt")
	os.Remove(durlog)
	cmd.Env = append(w.baseEnv(w.cache), "VERIF_OPLOG="+oplog, "VERIF_DURLOG="+durlog)
	if w.trace {
		cmd.Env = append(cmd.Env, "LLGO_TRACE=1")
	}
	if w.cdef > 0 {
		cmd.Env = append(cmd.Env, fmt.Sprintf("C13_CDEF=-DC13K=%d", w.cdef))
	}
	if w.gflag > 0 {
		cmd.Env = append(cmd.Env, fmt.Sprintf("CFLAGS=-DC13G=%d", w.gflag))
	}
	if len(match) > 0 && match[0] != "" {
		if strings.HasPrefix(match[0], "fserr:") {
			cmd.Env = append(cmd.Env, "VERIF_FSERR_MATCH="+strings.TrimPrefix(match[0], "fserr:"))
		} else if strings.HasPrefix(match[0], "write:") {
			cmd.Env = append(cmd.Env, "VERIF_CRASH_WRITE="+strings.TrimPrefix(match[0], "write:"))
			if torn {
				cmd.Env = append(cmd.Env, "VERIF_CRASH_TORN=1")
			}
		} else {
			cmd.Env = append(cmd.Env, "VERIF_CRASH_MATCH="+match[0])
		}
	}
	if crashAt > 0 {
		cmd.Env = append(cmd.Env, "VERIF_CRASH_AT="+strconv.Itoa(crashAt))
		if torn {
			cmd.Env = append(cmd.Env, "VERIF_CRASH_TORN=1")
		}
	}
	if fserr > 0 {
		cmd.Env = append(cmd.Env, "VERIF_FSERR="+strconv.Itoa(fserr)+":"+[]string{"ENOSPC", "EIO"}[fserr%2])
	}
	var out bytes.Buffer
	cmd.Stdout, cmd.Stderr = &out, &out
	err := cmd.Run()
	r := buildResult{buildLog: out.String()}
	if b, e := os.ReadFile(oplog); e == nil {
		r.ops = strings.Split(strings.TrimSpace(string(b)), "\n")
	}
	if b, e := os.ReadFile(durlog); e == nil {
		r.dur = strings.Split(strings.TrimSpace(string(b)), "\n")
	}
	w.lastDur = r.dur
	r.hits = strings.Count(r.buildLog, "cache HIT") + strings.Count(r.buildLog, "(cached)")
	if ee, ok := err.(*exec.ExitError); ok && ee.ExitCode() == 137 {
		r.killed = true
		return r
	}
	if err != nil {
		return r
	}
	rctx, rcancel := context.WithTimeout(context.Background(), 60*time.Second)
	defer rcancel()
	run := exec.CommandContext(rctx, filepath.Join(w.dir, "prog.out"))
	run.Dir = w.dir
	// println writes to standard error, the call trace to (buffered) standard output:
	// kept apart, because a flush of the latter may land in the middle of a line
	var po, so bytes.Buffer
	run.Stdout, run.Stderr = &so, &po
	if e := run.Run(); e != nil {
		r.output = po.String() + "\n[program failed: " + e.Error() + "]"
		r.stdout = so.String()
		r.ok = true // the build succeeded; the program's behaviour is what is compared
		return r
	}
	r.ok = true
	r.output = po.String()
	r.stdout = so.String()
	return r
}

// lineCalls is how often package i's Line() runs: once from main and once per
// run of each importer's Line().
func (w *world) lineCalls(i int) int {
	n := 1
	for j, p := range w.sc.Pkgs {
		for _, im := range p.Imports {
			if im == w.sc.Pkgs[i].Name {
				n += w.lineCalls(j)
			}
		}
	}
	return n
}

// mismatch compares what the built program did with what the sources and the
// configuration prescribe; "" if they agree.
func (w *world) mismatch(r buildResult) string {
	if want := w.expected(); r.output != want {
		return fmt.Sprintf("prints\n%q\nbut its sources prescribe\n%q", r.output, want)
	}
	calls := map[string]int{}
	for _, l := range strings.Split(r.stdout, "\n") {
		if strings.HasPrefix(l, "call c13mod/") || strings.HasPrefix(l, "call c13ext/") {
			calls[strings.TrimPrefix(l, "call ")]++
		} else if !w.trace && strings.HasPrefix(l, "call ") {
			calls[strings.TrimPrefix(l, "call ")]++
		}
	}
	for i, p := range w.sc.Pkgs {
		fn := w.modOf(i) + "/" + p.Name + ".Line"
		want := 0
		if w.trace {
			want = w.lineCalls(i)
		}
		if calls[fn] != want {
			return fmt.Sprintf("was built with LLGO_TRACE=%v and announces %d calls of %s; %d prescribed (a package compiled under the other setting was reused)", w.trace, calls[fn], fn, want)
		}
	}
	if !w.trace && len(calls) > 0 {
		for fn, n := range calls {
			return fmt.Sprintf("was built without LLGO_TRACE and yet announces %d calls of %s", n, fn)
		}
	}
	return ""
}

// irBuild compiles the module in a fresh cache (the warm runtime template
// only) with -gen-llfiles and returns the intermediate code of every package
// compiled, keyed by the package's export name.
func (w *world) irBuild(k int) (map[string][]byte, string) {
	root := filepath.Dir(w.dir)
	cache := filepath.Join(root, fmt.Sprintf("ircache%d", k))
	tmp := filepath.Join(root, fmt.Sprintf("irtmp%d", k))
	os.RemoveAll(cache)
	os.RemoveAll(tmp)
	os.MkdirAll(cache, 0o755)
	os.MkdirAll(tmp, 0o755)
	defer os.RemoveAll(cache)
	defer os.RemoveAll(tmp)
	if out, err := exec.Command("cp", "-al", filepath.Join(warmDir, "llgo"), filepath.Join(cache, "llgo")).CombinedOutput(); err != nil {
		return nil, "cannot copy the warm cache: " + string(out)
	}
	args := w.buildArgs(filepath.Join(tmp, "prog.out"))
	args = append([]string{args[0], "-gen-llfiles"}, args[1:]...)
	bctx, bcancel := context.WithTimeout(context.Background(), 15*time.Minute)
	defer bcancel()
	cmd := exec.CommandContext(bctx, llgoBin, args...)
	cmd.Dir = w.dir
	cmd.Env = append(w.baseEnv(cache), "TMPDIR="+tmp)
	if w.trace {
		cmd.Env = append(cmd.Env, "LLGO_TRACE=1")
	}
	if w.cdef > 0 {
		cmd.Env = append(cmd.Env, fmt.Sprintf("C13_CDEF=-DC13K=%d", w.cdef))
	}
	if w.gflag > 0 {
		cmd.Env = append(cmd.Env, fmt.Sprintf("CFLAGS=-DC13G=%d", w.gflag))
	}
	out, _ := cmd.CombinedOutput() // with LLVM 14 the textual round trip of some packages fails after their .ll was written
	files, _ := filepath.Glob(filepath.Join(tmp, "*.ll"))
	ir := map[string][]byte{}
	for _, f := range files {
		name := filepath.Base(f)
		if i := strings.LastIndexByte(name, '-'); i > 0 {
			name = name[:i]
		}
		b, err := os.ReadFile(f)
		if err != nil {
			continue
		}
		if i := bytes.Index(b, []byte("source_filename = \"")); i >= 0 {
			if j := bytes.IndexByte(b[i+19:], '"'); j >= 0 {
				name = string(b[i+19:i+19+j]) + " " + name[len(name)-min(len(name), 6):]
			}
		}
		ir[name] = b
	}
	return ir, lastLines(string(out), 3)
}

var goEnvCache = map[string]string{}

func goEnv(k string) string {
	if v, ok := goEnvCache[k]; ok {
		return v
	}
	v := os.Getenv(k)
	if v == "" {
		out, _ := exec.Command(filepath.Join(go123, "go"), "env", k).Output()
		v = strings.TrimSpace(string(out))
	}
	goEnvCache[k] = v
	return v
}

var haveBz2 = func() bool { _, err := os.Stat("/usr/lib/x86_64-linux-gnu/libbz2.so"); return err == nil }()

var worldSeq int

func (prop) Run(scx driver.Scenario, ch *sim.Choices, keep bool) *driver.Result {
	sc := scx.(*Scenario)
	res := &driver.Result{Faults: map[string]int{}, Probes: map[string]int{}, Counters: map[string]int{}}
	worldSeq++
	root := filepath.Join(tmpRoot, fmt.Sprintf("w-%d-%d", os.Getpid(), worldSeq))
	os.RemoveAll(root)
	defer os.RemoveAll(root)
	w := &world{sc: sc, dir: filepath.Join(root, "mod"), cache: filepath.Join(root, "cache"), keep: keep, abi: 2, clock: 1_700_000_000_000_000_000}
	w.st = make([]pkgState, len(sc.Pkgs))
	for i := range w.st {
		w.st[i] = pkgState{srcVer: 1, cVal: 10 + i, c2Val: 50 + i, embedVer: 1, xVal: "x0", declVer: 10 + i, cfgVer: 20 + i}
	}
	os.MkdirAll(w.cache, 0o755)
	// pre-warmed runtime/std cache: hard links (entries are only ever replaced, never written in place)
	if out, err := exec.Command("cp", "-al", filepath.Join(warmDir, "llgo"), filepath.Join(w.cache, "llgo")).CombinedOutput(); err != nil {
		return &driver.Result{Violation: "", Detail: "cannot copy the warm cache: " + string(out), Diverged: 1}
	}
	w.writeAll()
	viol, detail := "", ""
	var tags []string
	h := uint64(1469598103934665603)
	mix := func(s string) {
		for i := 0; i < len(s); i++ {
			h = (h ^ uint64(s[i])) * 1099511628211
		}
	}
	lastEdit := ""         // kind of the most recent edit
	sameMtime := false     // the most recent edit left size and mtime of the file unchanged
	pendingFault := Step{} // crash/fserr to apply to the next build
	afterFault := false
	afterRace := false // the cache holds what concurrent builders left
	builds := 0
	lastOps := 69 // cache operations of the most recent complete build
	for si, st := range sc.Steps {
		if viol != "" {
			break
		}
		mix(st.K)
		switch st.K {
		case "edit-src", "edit-src-same":
			s := &w.st[st.Pkg]
			path := filepath.Join(w.pkgDir(st.Pkg), sc.Pkgs[st.Pkg].Name+".go")
			before, _ := os.Stat(path)
			s.srcVer++
			if st.K == "edit-src" {
				s.pad++
			}
			w.writePkg(st.Pkg)
			after, _ := os.Stat(path)
			sameMtime = before != nil && after != nil && before.Size() == after.Size() && before.ModTime().Equal(after.ModTime())
			lastEdit = st.K
			w.logf("step %d: edit Go source of %s -> v%04d (same size: %v, same mtime+size: %v)", si, sc.Pkgs[st.Pkg].Name, s.srcVer, st.K == "edit-src-same", sameMtime)
		case "edit-c":
			s := &w.st[st.Pkg]
			path := filepath.Join(w.pkgDir(st.Pkg), "_wrap", "w.c")
			second := sc.Pkgs[st.Pkg].TwoC && st.Arg%2 == 1
			if second {
				path = filepath.Join(w.pkgDir(st.Pkg), "_wrap", "w2.c")
			}
			before, _ := os.Stat(path)
			if second {
				s.c2Val = (s.c2Val+7)%90 + 10
				w.write(path, fmt.Sprintf("int %s_cval2(void) { return %d; }\n", sc.Pkgs[st.Pkg].Name, s.c2Val))
			} else {
				s.cVal = (s.cVal+7)%90 + 10 // always two digits: same size
				w.write(path, w.cSource(st.Pkg))
			}
			after, _ := os.Stat(path)
			sameMtime = before != nil && after != nil && before.Size() == after.Size() && before.ModTime().Equal(after.ModTime())
			lastEdit = st.K
			w.logf("step %d: edit C side file of %s -> %d (same mtime+size: %v)", si, sc.Pkgs[st.Pkg].Name, s.cVal, sameMtime)
		case "edit-embed":
			s := &w.st[st.Pkg]
			s.embedVer = s.embedVer%8 + 1 // one digit: same size
			w.write(filepath.Join(w.pkgDir(st.Pkg), "data.txt"), fmt.Sprintf("e%d", s.embedVer))
			sameMtime = false // embedded files are digested by content
			lastEdit = st.K
			w.logf("step %d: edit embedded file of %s -> e%d", si, sc.Pkgs[st.Pkg].Name, s.embedVer)
		case "edit-decl":
			s := &w.st[st.Pkg]
			s.declVer = (s.declVer+7)%90 + 10 // two digits: same size
			w.writeDecl(st.Pkg)
			lastEdit, sameMtime = st.K, false
			res.Probes["decl-package-edits"]++
			w.logf("step %d: edit the declaration-only package of %s -> d%02d", si, sc.Pkgs[st.Pkg].Name, s.declVer)
		case "edit-link":
			s := &w.st[st.Pkg]
			before, _ := os.Stat(w.cfgTarget(st.Pkg))
			s.cfgVer = (s.cfgVer+7)%90 + 10
			w.writeCfg(st.Pkg)
			after, _ := os.Stat(w.cfgTarget(st.Pkg))
			sameMtime = before != nil && after != nil && before.Size() == after.Size() && before.ModTime().Equal(after.ModTime())
			lastEdit = st.K
			res.Probes["symlinked-source-edits"]++
			w.logf("step %d: edit the file %s's symbolic link points to -> g%02d (same mtime+size: %v)", si, sc.Pkgs[st.Pkg].Name, s.cfgVer, sameMtime)
		case "tag":
			w.tag = !w.tag
			lastEdit, sameMtime = st.K, false
			w.logf("step %d: build tag alt = %v", si, w.tag)
		case "x":
			w.st[st.Pkg].xVal = fmt.Sprintf("x%d", st.Arg)
			lastEdit, sameMtime = st.K, false
			w.logf("step %d: -X c13mod/%s.X=%s", si, sc.Pkgs[st.Pkg].Name, w.st[st.Pkg].xVal)
		case "abi":
			w.abi = st.Arg
			lastEdit, sameMtime = st.K, false
			w.logf("step %d: -abi %d", si, w.abi)
		case "opt":
			w.opt = st.Arg % 3
			lastEdit, sameMtime = st.K, false
			res.Probes["optimisation-level-changes"]++
			w.logf("step %d: optimisation level %s", si, []string{"default (-O2)", "-O0", "-Oz"}[w.effOpt()])
		case "env":
			w.trace = st.Arg == 1
			lastEdit, sameMtime = st.K, false
			res.Probes["env-LLGO_TRACE-changes"]++
			w.logf("step %d: LLGO_TRACE=%v", si, w.trace)
		case "cenv":
			w.cdef = st.Arg
			lastEdit, sameMtime = st.K, false
			res.Probes["env-C-flag-variable-changes"]++
			w.logf("step %d: C13_CDEF=-DC13K=%d (environment variable expanded in a package's LLGoFiles compile flags)", si, w.cdef)
		case "cflags":
			w.gflag = st.Arg
			lastEdit, sameMtime = st.K, false
			res.Probes["env-CFLAGS-changes"]++
			w.logf("step %d: CFLAGS=-DC13G=%d (prepended to every C compilation)", si, w.gflag)
		case "edit-h":
			s := &w.st[st.Pkg]
			path := filepath.Join(w.pkgDir(st.Pkg), "_wrap", "w.h")
			nested := st.Arg%2 == 1 // the header in the sub-directory, which w.h includes
			if nested {
				path = filepath.Join(w.pkgDir(st.Pkg), "_wrap", "inc", "v.h")
			}
			before, _ := os.Stat(path)
			if nested {
				s.hSub = (s.hSub + 3) % 10 // one digit: same size
				w.write(path, fmt.Sprintf("#define HSUB %d\n", s.hSub))
				res.Probes["nested-header-edits"]++
			} else {
				s.hVal = (s.hVal + 3) % 10
				w.write(path, fmt.Sprintf("#include \"inc/v.h\"\n#define HOFF (%d + HSUB)\n", s.hVal))
			}
			after, _ := os.Stat(path)
			sameMtime = before != nil && after != nil && before.Size() == after.Size() && before.ModTime().Equal(after.ModTime())
			lastEdit = st.K
			res.Probes["header-edits"]++
			w.logf("step %d: edit the header %s's C file includes (in a sub-directory: %v) -> HOFF %d+%d (same mtime+size: %v)", si, sc.Pkgs[st.Pkg].Name, nested, s.hVal, s.hSub, sameMtime)
		case "repro":
			a, la := w.irBuild(1)
			b, lb := w.irBuild(2)
			builds += 2
			res.Probes["ir-reproducibility-comparisons"]++
			user := 0
			for n := range a {
				if strings.HasPrefix(n, "c13mod") || strings.HasPrefix(n, "c13ext") {
					user++
				}
			}
			w.logf("step %d: two compiler processes, fresh caches: %d and %d packages' intermediate code (%d of the module)", si, len(a), len(b), user)
			if user < len(sc.Pkgs) {
				// a package outside the module had to be compiled in this configuration (no
				// warm archive for it) and its textual round trip fails under LLVM 14, which
				// ends a -gen-llfiles build before the module's packages are reached: no
				// comparison is possible here; counted, not judged
				res.Probes["ir-comparison-not-possible-in-this-configuration"]++
				w.logf("step %d: no comparison: the -gen-llfiles builds ended early (%s | %s)", si, la, lb)
				break
			}
			// packages outside the module (a configuration without a warm runtime)
			// are compared when both builds got as far as emitting them: with LLVM 14
			// the textual round trip of the runtime package fails and ends the build
			var names []string
			for n := range a {
				if _, ok := b[n]; ok || strings.HasPrefix(n, "c13mod") || strings.HasPrefix(n, "c13ext") {
					names = append(names, n)
				}
			}
			for n := range b {
				if _, ok := a[n]; !ok && (strings.HasPrefix(n, "c13mod") || strings.HasPrefix(n, "c13ext")) {
					names = append(names, n)
				}
			}
			sort.Strings(names)
			res.Counters["ir-files-compared"] += len(names)
			for _, n := range names {
				if !bytes.Equal(a[n], b[n]) {
					viol, detail = "ir-not-reproducible", fmt.Sprintf("step %d: two builds of the same sources with the same configuration emit different intermediate code for %s: %s", si, n, firstDiff(a[n], b[n]))
					tags = append(tags, "pkg:"+strings.Fields(n)[0])
					break
				}
			}
		case "clear":
			os.RemoveAll(filepath.Join(w.cache, "llgo", "build"))
			exec.Command("cp", "-al", filepath.Join(warmDir, "llgo", "build"), filepath.Join(w.cache, "llgo", "build")).Run()
			w.logf("step %d: cache cleared (back to the warm template)", si)
		case "crash", "fserr":
			pendingFault = st
		case "powercut":
			// The machine loses power after the most recent build: a cache file that got
			// its final name without having been synced keeps the name but not (all of)
			// its data.  Files the cache code synced before the rename are intact.
			synced := map[string]bool{}
			var victims []string
			for _, l := range w.lastDur {
				f := strings.Fields(l)
				if len(f) == 2 && f[0] == "sync" {
					synced[f[1]] = true
				} else if len(f) == 3 && f[0] == "rename" && !synced[f[1]] && strings.HasPrefix(f[2], w.cache) {
					if fi, err := os.Lstat(f[2]); err == nil && fi.Mode().IsRegular() {
						victims = append(victims, f[2])
					}
				}
			}
			sort.Strings(victims)
			res.Probes["power-cuts"]++
			if len(victims) == 0 {
				w.logf("step %d: power cut: every file the last build published had been synced (or it published nothing)", si)
				break
			}
			if st.Arg%3 == 1 {
				victims = victims[ch.Choose('z', len(victims)):][:1]
			}
			for _, v := range victims {
				fi, err := os.Lstat(v)
				if err != nil {
					continue
				}
				if st2, ok := fi.Sys().(*syscall.Stat_t); ok && st2.Nlink > 1 {
					continue // shared with the warm template: never written by this world's builds
				}
				n := int64(0)
				if st.Arg%3 == 2 {
					n = fi.Size() / 2
				}
				os.Truncate(v, n)
				res.Faults["power-cut-unsynced-file-lost"]++
				w.logf("step %d: power cut: %s had its name but was never synced: %d of %d bytes survive", si, shorten(v, w), n, fi.Size())
			}
			afterFault = true
			lastEdit = "powercut"
		case "race":
			var rtags []string
			viol, detail, rtags = w.race(si, st, ch, res, mix)
			tags = append(tags, rtags...)
			builds += 2
			afterRace = true
		case "build", "noop":
			crashAt, fserr := 0, 0
			k := pendingFault.Arg
			if pendingFault.FromEnd {
				k = lastOps - pendingFault.Arg
			}
			if k < 1 {
				k = 1
			}
			if pendingFault.K == "crash" {
				crashAt = k
			} else if pendingFault.K == "fserr" {
				fserr = k
			}
			match := ""
			// a target names an operation on the cache entry of package Pkg, or, with
			// the prefix "lib-", of its link-argument companion <name>lib
			tgt := strings.TrimPrefix(pendingFault.Target, "lib-")
			pkgPath := ""
			if pendingFault.Target != "" {
				name := sc.Pkgs[pendingFault.Pkg].Name
				if strings.HasPrefix(pendingFault.Target, "lib-") {
					name += "lib"
				}
				pkgPath = "/" + w.modOf(pendingFault.Pkg) + "/" + name + "/"
				if strings.HasPrefix(pendingFault.Target, "lib-") {
					pkgPath = "/c13mod/" + name + "/"
				}
			}
			if pendingFault.K == "crash" && (tgt == "archive-write" || tgt == "manifest-write") {
				// die at the first write into the package's archive / manifest in the
				// cache (temporary or final name), optionally after half of it
				match = "write:" + pkgPath + "|" + map[string]string{"archive-write": ".a", "manifest-write": "manifest"}[tgt]
				crashAt = 0
			} else if pendingFault.K == "crash" && pendingFault.Target != "" {
				suffix := map[string]string{"manifest": ".manifest", "archive": ".a"}[tgt]
				match = "rename|" + pkgPath + "|" + suffix
				crashAt = 0
			}
			if pendingFault.K == "fserr" && pendingFault.Target != "" {
				m := map[string]string{"archive-write": "write|%s|.a", "archive-close": "close|%s|.a", "manifest-write": "write|%s|manifest"}[tgt]
				match = "fserr:" + fmt.Sprintf(m, pkgPath)
				fserr = 0
			}
			if crashAt > 0 || fserr > 0 || match != "" {
				r := w.build(crashAt, fserr, pendingFault.Torn, match)
				builds++
				if r.killed {
					res.Faults["crash-during-build"]++
					if pendingFault.Torn {
						res.Faults["torn-write"]++
					}
					where := ""
					if match != "" {
						crashAt = len(r.ops)
						res.Probes["crash-targeted-before-"+pendingFault.Target+"-publication"]++
					}
					if crashAt >= 1 && crashAt <= len(r.ops) {
						where = r.ops[crashAt-1]
					}
					w.logf("step %d: build killed at cache operation %d (%s)", si, crashAt, shorten(where, w))
					classifyCrash(res, r.ops, crashAt)
				} else if !r.ok {
					res.Faults["disk-error-during-build"]++
					w.logf("step %d: build failed on injected disk error at cache operation %d", si, fserr)
				} else if strings.HasPrefix(match, "fserr:") && strings.Contains(r.buildLog, "failed to save cache") {
					res.Faults["disk-error-during-build"]++
					res.Probes["disk-error-targeted-"+pendingFault.Target]++
					w.logf("step %d: injected disk error while publishing (%s); llgo warned and went on", si, pendingFault.Target)
					if mm := w.mismatch(r); mm != "" {
						viol, detail = "stale-output", fmt.Sprintf("step %d: the program built by the build that met the injected fault %s", si, mm)
					}
				} else {
					w.logf("step %d: fault point %d not reached (build performed %d cache operations)", si, crashAt+fserr, len(r.ops))
					if mm := w.mismatch(r); mm != "" {
						viol, detail = "stale-output", fmt.Sprintf("step %d: the program built by the build that met the injected fault %s", si, mm)
					}
				}
				pendingFault = Step{}
				afterFault = true
				if viol != "" {
					break
				}
			}
			r := w.build(0, 0, false)
			builds++
			mix(r.output)
			if !r.ok {
				// the property's own oracle: does a clean build (cache back to the warm template) succeed?
				w.logf("step %d: build fails: %s", si, lastLines(r.buildLog, 3))
				os.RemoveAll(filepath.Join(w.cache, "llgo", "build"))
				exec.Command("cp", "-al", filepath.Join(warmDir, "llgo", "build"), filepath.Join(w.cache, "llgo", "build")).Run()
				r2 := w.build(0, 0, false)
				builds++
				if r2.ok {
					viol, detail = "cached-build-fails", fmt.Sprintf("step %d: the build that reused the cache failed (%s) although a clean build of the same sources succeeds: a cache entry was used that is incomplete (left by an interrupted or failed build) or whose stored metadata are not what a compiling build uses", si, lastLines(r.buildLog, 2))
					tags = append(tags, "clock:"+sc.Clock)
					if afterFault {
						tags = append(tags, "after-injected-fault")
					}
					if afterRace {
						tags = append(tags, "after-concurrent-builds")
					}
					break
				}
				viol, detail = "infra-build-failed", fmt.Sprintf("step %d: llgo build fails also with a clean cache: %s", si, lastLines(r2.buildLog, 6))
				break
			}
			lastOps = len(r.ops)
			w.logf("step %d: build ok (%d cache operations); output %q", si, len(r.ops), r.output)
			if mm := w.mismatch(r); mm != "" {
				cls := "stale-output"
				if afterFault {
					cls = "stale-output-after-crash"
				} else if afterRace {
					cls = "stale-output-after-concurrent-builds"
				}
				viol, detail = cls, fmt.Sprintf("step %d: the program built after %q %s", si, lastEdit, mm)
				tags = append(tags, "last-edit:"+lastEdit, "clock:"+sc.Clock)
				if sameMtime {
					tags = append(tags, "edit-left-size-and-mtime-unchanged")
				}
			}
			if st.K == "noop" {
				res.Probes["noop-rebuilds"]++
			}
			afterFault = false
			afterRace = false
			sameMtime = false
		}
	}
	res.Violation, res.Detail = viol, detail
	if viol != "" {
		res.Items = []driver.Item{{Tags: tags, Detail: detail}}
	}
	res.Choices = ch.Rec
	res.TraceHash = h
	res.StateHash = h
	res.Steps = builds
	res.SimTime = (w.clock - 1_700_000_000_000_000_000) / 1_000_000
	res.Probes["clock-"+sc.Clock]++
	res.Probes["builds"] += builds
	anyEmbed := false
	for _, p := range sc.Pkgs {
		anyEmbed = anyEmbed || p.Embed
	}
	if anyEmbed {
		res.Probes["worlds-with-embed"]++
	}
	res.Nontrivial = builds >= 2
	if keep {
		res.Log = append(w.log, fmt.Sprintf("end: %d builds; outcome: %s %s", builds, viol, detail))
	}
	return res
}

func firstDiff(a, b []byte) string {
	if a == nil || b == nil {
		return "emitted by one of the two builds only"
	}
	la, lb := strings.Split(string(a), "\n"), strings.Split(string(b), "\n")
	for i := 0; i < len(la) && i < len(lb); i++ {
		if la[i] != lb[i] {
			return fmt.Sprintf("line %d: %q vs %q", i+1, clip(la[i], 160), clip(lb[i], 160))
		}
	}
	return fmt.Sprintf("%d vs %d lines", len(la), len(lb))
}

func clip(s string, n int) string {
	if len(s) > n {
		return s[:n] + "..."
	}
	return s
}

func shorten(s string, w *world) string { return strings.ReplaceAll(s, w.cache, "$CACHE") }

func lastLines(s string, n int) string {
	l := strings.Split(strings.TrimSpace(s), "\n")
	if len(l) > n {
		l = l[len(l)-n:]
	}
	return strings.Join(l, " | ")
}

// classifyCrash records where in the publication protocol the crash landed.
func classifyCrash(res *driver.Result, ops []string, k int) {
	if k <= 0 || k > len(ops) {
		return
	}
	// between the archive rename and the manifest rename of the same entry?
	sawArchive := false
	for i := 0; i < k-1 && i < len(ops); i++ {
		f := strings.Fields(ops[i])
		if len(f) >= 3 && f[1] == "rename" {
			if strings.HasSuffix(f[2], ".a") {
				sawArchive = true
			} else if strings.HasSuffix(f[2], ".manifest") {
				sawArchive = false
			}
		}
	}
	if sawArchive {
		res.Probes["crash-between-archive-and-manifest-publication"]++
	}
	f := strings.Fields(ops[k-1])
	if len(f) >= 2 {
		res.Probes["crash-at-"+f[1]]++
	}
}

// ---- shrinking ---------------------------------------------------------------------------

func (prop) Shrink(scx driver.Scenario) []driver.Scenario {
	sc := scx.(*Scenario)
	var out []driver.Scenario
	cp := func() *Scenario {
		b, _ := json.Marshal(sc)
		var c Scenario
		json.Unmarshal(b, &c)
		return &c
	}
	for i := len(sc.Steps) - 1; i >= 1; i-- {
		c := cp()
		c.Steps = append(c.Steps[:i], c.Steps[i+1:]...)
		out = append(out, c)
	}
	if sc.Clock != "normal" {
		c := cp()
		c.Clock = "normal"
		out = append(out, c)
	}
	return out
}

func (prop) Describe() driver.Description {
	return driver.Description{
		Rule: "a case is one history of 3-12 steps (edit one build input - Go source same/different size, C side file, embedded file, build tag, ABI mode, optimisation level, LLGO_TRACE, an environment variable expanded in a package's LLGoFiles compile flags - rebuild, two-process intermediate-code comparison, no-op rebuild, cache clear, build killed at cache operation k, disk error at cache operation k, 2-3 concurrent builder processes on the one cache interleaved at every cache operation) on a generated module of 2-6 packages with a private build cache and a simulated file-time clock (normal, stalled, backwards, coarse); each build runs the real llgo and the built program; non-trivial: at least two builds; distinct = distinct hash of the (step, program output) sequence",
		Components: []driver.Component{
			{Name: "llgo (cmd/llgo, internal/build, cl, ssa, runtime)", Real: true, What: "built from the working tree at every check"},
			{Name: "internal/build cache.go, collect.go, createArchiveFile", Real: true, What: "file-system calls routed through a counting seam supplied by go build -overlay (kill / fail at operation k); logic unchanged"},
			{Name: "LLVM", Real: false, What: "LLVM 14 with opaque pointers forced on instead of LLVM 19; embed worlds built at -O0"},
			{Name: "libunwind, libuv, lld", Real: false, What: "stub libraries / GNU ld through clang wrappers"},
			{Name: "file mtimes", Real: false, What: "stamped from the simulated clock with os.Chtimes"},
		},
		Assumptions: []string{
			"byte-reproducibility of intermediate code is sampled, not simulated: a repro step runs two compiler processes on the same sources (fresh caches, different temporary directories) and compares every package's .ll byte for byte; the processes differ in Go's per-process map-iteration seed, which is outside any seam, so a difference is reported with the histories that showed it and is expected, not guaranteed, to recur on replay",
			"of the environment variables in the cache key only LLGO_TRACE changes what a program does (every function announces itself); the optimisation level is observable through the C side files only (__OPTIMIZE__ / __OPTIMIZE_SIZE__: -O2, -O0 and -Oz are told apart, -O1/-O3/-Os are not generated); the debug variables do not change what a println program prints, so their staleness is not observable by this oracle",
			"power cut: after a build, every cache file that got its final name (rename) without the cache code having synced it may lose all or half of its data while keeping its name (what ext4/xfs/btrfs may do to a renamed, never synced file); synced files and files the build did not publish are intact; lost directory entries are not modelled",
			"concurrent builders: a race step runs 2-3 llgo processes on one cache directory, parked at every cache operation and released one at a time by the run's PRNG; between two cache operations a process runs alone, so interleavings inside one cache operation (two writers inside one write system call) are not explored; edits while a build is running are not generated",
		},
		FaultKinds:  []string{"crash-during-build", "torn-write", "disk-error-during-build", "race-kill", "race-torn-write-kill", "race-disk-error", "power-cut-unsynced-file-lost"},
		Workers:     8,
		QuickBudget: 100, ThoroughBudget: 2400,
		RunTimeout: 3600, // a history is a dozen real compiler runs
	}
}


func main() { driver.Main(prop{}) }
