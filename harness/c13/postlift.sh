# sourced by vcheck after lifting (cwd = scratch module root; $VERIF $SCR $REPO $GO set).
# Builds the real llgo from the working tree with the cache fault-injection seam
# and the LLVM-14 adaptations, the tool shim directory, and a warm build cache
# template (runtime + the std packages a println-only program needs).
C13=$SCR/c13
mkdir -p "$C13/ov" "$C13/warm" "$C13/tmp"
cp "$VERIF/overlay/zz_verif_opaque.go" "$VERIF/overlay/zz_verif_seam.go" "$C13/ov/" || return 1
cat > "$C13/overlay.json" <<J
{"Replace": {
 "$REPO/ssa/zz_verif_opaque.go": "$C13/ov/zz_verif_opaque.go",
 "$REPO/internal/build/zz_verif_seam.go": "$C13/ov/zz_verif_seam.go",
 "$REPO/internal/build/cache.go": "$SCR/mod/c13ov/a/lifted_cache.go",
 "$REPO/internal/build/collect.go": "$SCR/mod/c13ov/a/lifted_collect.go",
 "$REPO/internal/build/build.go": "$SCR/mod/c13ov/b/lifted_build.go"
}}
J
GO123=${VERIF_GO123:-/usr/lib/go-1.23/bin}
[ -x "$GO123/go" ] || { echo "go1.23 toolchain not found at $GO123" >&2; return 1; }
# llgo's own go.mod asks for go 1.24: build it with the toolchain /repo's tests use
LLGO_BUILD_GO=${VERIF_LLGO_BUILD_GO:-/root/go/pkg/mod/golang.org/toolchain@v0.0.1-go1.24.0.linux-amd64/bin/go}
[ -x "$LLGO_BUILD_GO" ] || LLGO_BUILD_GO=$GO
( cd "$REPO" && GOFLAGS=-mod=mod GOPROXY=off GOTOOLCHAIN=local GOWORK=off "$LLGO_BUILD_GO" build -tags llvm14,verif,dev -overlay "$C13/overlay.json" -o "$C13/llgo" ./cmd/llgo ) >"$C13/build.log" 2>&1 || { echo "building llgo from the working tree failed:" >&2; tail -30 "$C13/build.log" >&2; return 1; }
"$VERIF/toolchain/mkshim.sh" "$C13/shim" >/dev/null || return 1
export VERIF_C13_LLGO=$C13/llgo VERIF_C13_SHIM=$C13/shim VERIF_C13_WARM=$C13/warm VERIF_C13_TMP=$C13/tmp VERIF_C13_GO123=$GO123 VERIF_C13_REPO=$REPO
# warm cache template
mkdir -p "$C13/warmprog" && cat > "$C13/warmprog/go.mod" <<'J'
module warmprog

go 1.23
J
c13env() { env -i PATH="$GO123:/usr/bin:/bin" HOME="$C13/tmp" LLGO_ROOT="$REPO" LLVM_CONFIG="$C13/shim/bin/llvm-config" GOTOOLCHAIN=local GOFLAGS=-mod=mod GOPROXY=off GOWORK=off XDG_CACHE_HOME="$C13/warm" GOCACHE="${GOCACHE:-$HOME/.cache/go-build}" GOMODCACHE="${GOMODCACHE:-/root/go/pkg/mod}" "$@"; }
cat > "$C13/warmprog/main.go" <<'J'
package main

import _ "unsafe"

func main() { println("warm") }
J
( cd "$C13/warmprog" && c13env "$C13/llgo" build -tags verifbase -abi 2 -o "$C13/warmprog/out" . ) >"$C13/warm.log" 2>&1 || { echo "llgo cannot build a println program in this environment:" >&2; tail -30 "$C13/warm.log" >&2; return 1; }
[ "$("$C13/warmprog/out" 2>&1)" = "warm" ] || { echo "the println program built by llgo does not run" >&2; return 1; }
# the other configurations the histories switch to (build tags, ABI modes,
# LLGO_TRACE: each is part of every package's cache key, the runtime's too):
# warm them side by side, so that a world's first build under them costs seconds
c13warm() { ( cd "$C13/warmprog" && c13env env $3 "$C13/llgo" build ${5:-} -tags "$1" -abi "$2" -o "$C13/warmprog/out-$4" . ) >>"$C13/warm.log" 2>&1; }
c13warm verifbase,alt 2 A=1 1 &
c13warm verifbase 1 A=1 2 &
c13warm verifbase 0 A=1 3 &
c13warm verifbase,alt 1 A=1 4 &
c13warm verifbase,alt 0 A=1 5 &
c13warm verifbase 2 LLGO_TRACE=1 6 &
c13warm verifbase,alt 2 LLGO_TRACE=1 7 &
c13warm verifbase 2 A=1 8 -O0 &
c13warm verifbase 2 A=1 9 -Oz &
wait
case " ${ARGS[*]} ${VERIF_TIER:-} " in *thorough*)
  export VERIF_C13_EMBED=1
  cat > "$C13/warmprog/main.go" <<'J'
package main

import _ "embed"

//go:embed go.mod
var s string

func main() { println(len(s) > 0) }
J
  ( cd "$C13/warmprog" && c13env "$C13/llgo" build -O0 -tags verifbase -abi 2 -o "$C13/warmprog/out2" . ) >>"$C13/warm.log" 2>&1 || { echo "note: embed programs do not build here; embed histories are skipped" >&2; export VERIF_C13_EMBED=0; }
;; esac
