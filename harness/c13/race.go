// Concurrent builders on one cache directory.
//
// A "race" step runs two or three real llgo processes on the world's current
// sources with one shared build cache.  Every cache operation of every process
// is a gate (overlay/zz_verif_seam.go, VERIF_GATE): the process announces the
// operation on a named pipe and waits; the harness releases exactly one process
// at a time, so between two gates only one process runs and the interleaving of
// the processes' cache operations is a recorded decision of the run's PRNG.
// One of the processes may be killed at a gate (optionally half-way through a
// write) or be given a disk error there.
//
// Oracle: every process that ends successfully has built a program that does
// what its sources and its configuration prescribe; a process that met no fault
// must not fail where a build on a clean cache succeeds; the builds that follow
// in the history (which reuse whatever the racers left in the cache) are judged
// by the ordinary output oracle.
package main

import (
	"bufio"
	"bytes"
	"context"
	"fmt"
	"os"
	"os/exec"
	"path/filepath"
	"regexp"
	"strings"
	"syscall"
	"time"

	"verif/driver"
	"verif/sim"
)

type racer struct {
	id      string
	tag     bool // this racer's build-tag setting
	opt     int  // this racer's optimisation level
	abi     int
	out     string
	dir     string // gate directory
	cmd     *exec.Cmd
	req     *os.File
	ack     *os.File
	lines   chan string
	done    chan error
	state   int // 0 not started, 1 running, 2 at a gate, 3 ended
	pending string
	log     bytes.Buffer
	nops    int
	lookups int // cache look-ups announced so far: how far the builder has got through the package list
	faultAt int    // gate number at which this racer meets its fault (0: none)
	fault   byte   // 'k', 't' or 'e'
	faulted bool   // the fault was delivered
	killed  bool
	err     error
	cancel  context.CancelFunc
	ctx     context.Context
}

// envFor is the environment of an llgo process for the world's current configuration.
func (w *world) envFor(cache string) []string {
	env := w.baseEnv(cache)
	if w.trace {
		env = append(env, "LLGO_TRACE=1")
	}
	if w.cdef > 0 {
		env = append(env, fmt.Sprintf("C13_CDEF=-DC13K=%d", w.cdef))
	}
	if w.gflag > 0 {
		env = append(env, fmt.Sprintf("CFLAGS=-DC13G=%d", w.gflag))
	}
	return env
}

func (r *racer) start(w *world) error {
	os.RemoveAll(r.dir)
	if err := os.MkdirAll(r.dir, 0o755); err != nil {
		return err
	}
	for _, n := range []string{"req", "ack"} {
		if err := syscall.Mkfifo(filepath.Join(r.dir, n), 0o600); err != nil {
			return err
		}
	}
	var err error
	// both ends opened read-write here, so that neither side's open ever blocks
	if r.req, err = os.OpenFile(filepath.Join(r.dir, "req"), os.O_RDWR, 0); err != nil {
		return err
	}
	if r.ack, err = os.OpenFile(filepath.Join(r.dir, "ack"), os.O_RDWR, 0); err != nil {
		return err
	}
	saveTag, saveAbi, saveOpt := w.tag, w.abi, w.opt
	w.tag, w.abi, w.opt = r.tag, r.abi, r.opt
	args := w.buildArgs(r.out)
	w.tag, w.abi, w.opt = saveTag, saveAbi, saveOpt
	os.Remove(r.out)
	ctx, cancel := context.WithTimeout(context.Background(), 15*time.Minute)
	r.cancel, r.ctx = cancel, ctx
	r.cmd = exec.CommandContext(ctx, llgoBin, args...)
	r.cmd.Dir = w.dir
	r.cmd.Env = append(w.envFor(w.cache), "VERIF_GATE="+r.dir)
	r.cmd.Stdout, r.cmd.Stderr = &r.log, &r.log
	r.lines = make(chan string, 4)
	r.done = make(chan error, 1)
	if err := r.cmd.Start(); err != nil {
		return err
	}
	go func() {
		sc := bufio.NewScanner(r.req)
		for sc.Scan() {
			r.lines <- sc.Text()
		}
	}()
	go func() { r.done <- r.cmd.Wait() }()
	r.state = 1
	return nil
}

// wait blocks until the running racer reaches its next gate or ends.
func (r *racer) wait() {
	select {
	case l := <-r.lines:
		r.pending, r.state = l, 2
		r.nops++
		if f := strings.SplitN(l, " ", 3); len(f) == 3 && f[1] == "stat" && strings.HasSuffix(f[2], ".a") {
			r.lookups++
		}
	case err := <-r.done:
		r.state, r.err = 3, err
		if ee, ok := err.(*exec.ExitError); ok && ee.ExitCode() == 137 {
			r.killed = true
		}
	}
}

func (r *racer) release(order byte) {
	r.ack.Write([]byte{order})
	r.state = 1
}

func (r *racer) close() {
	if r.cancel != nil {
		r.cancel()
	}
	if r.state == 1 || r.state == 2 {
		if r.cmd != nil && r.cmd.Process != nil {
			r.cmd.Process.Kill()
		}
	}
	if r.req != nil {
		r.req.Close()
	}
	if r.ack != nil {
		r.ack.Close()
	}
	os.RemoveAll(r.dir)
}

// opOf shortens a gate announcement to "<op> <path relative to the cache>".
func opOf(line string, w *world) string {
	f := strings.SplitN(line, " ", 3)
	if len(f) < 3 {
		return line
	}
	p := strings.TrimPrefix(strings.ReplaceAll(f[2], w.cache, "$CACHE"), "$CACHE/llgo/build/")
	p = strings.ReplaceAll(p, filepath.Dir(w.dir), "$WORLD") // the world's directory carries the process id
	return f[1] + " " + fingerprintName.ReplaceAllString(tmpName.ReplaceAllString(p, "${1}N"), "FP")
}

// fingerprintName matches a cache entry's fingerprint: a function of the
// world's (per-process) directory among other things, not of the schedule.
var fingerprintName = regexp.MustCompile(`[0-9a-f]{64}`)

// tmpName matches the random part of the temporary names the cache code draws
// (os.CreateTemp): not part of a schedule's identity.
var tmpName = regexp.MustCompile(`(tmp-?|manifest-|pkg-)[0-9]+`)

// race runs the step; it returns a violation class and detail ("" if none).
func (w *world) race(si int, st Step, ch *sim.Choices, res *driver.Result, mix func(string)) (string, string, []string) {
	n := 2
	if st.Arg&2 != 0 {
		n = 3
	}
	var rs []*racer
	for i := 0; i < n; i++ {
		r := &racer{id: string(rune('A' + i)), tag: w.tag, abi: w.abi, opt: w.opt,
			out: filepath.Join(w.dir, fmt.Sprintf("prog-%c.out", 'a'+i)),
			dir: filepath.Join(filepath.Dir(w.dir), fmt.Sprintf("gate-%c", 'a'+i))}
		if i == 1 && st.Arg&1 != 0 {
			r.tag = !r.tag // the second builder works under the other build-tag setting
		}
		if i == 1 && st.Arg&8 != 0 {
			r.opt = (r.opt + 1) % 2 // ... or at another optimisation level (-O0 <-> default); from -Oz to the default level
		}
		rs = append(rs, r)
	}
	defer func() {
		for _, r := range rs {
			r.close()
		}
	}()
	// one racer may meet a fault at one of its gates
	if st.Arg&4 != 0 {
		v := rs[ch.Choose('v', n)]
		v.fault = []byte{'k', 'k', 't', 'e'}[ch.Choose('f', 4)]
		if st.Target != "" {
			v.faultAt = -1 // aimed: see below
		} else {
			v.faultAt = 1 + ch.Choose('a', 90)
		}
	}
	// the schedule: switch at every gate / now and then / rarely / "aligned": keep the
	// builders level on the package list (the one that has announced fewer cache
	// look-ups goes first, level builders alternate), so that they work on the same
	// cache entry at the same time
	strat := ch.Choose('p', 4)
	if st.Sched == "aligned" {
		strat = 3
	}
	switchPct := []int{100, 30, 6, 100}[strat]
	for _, r := range rs {
		if err := r.start(w); err != nil {
			return "infra-build-failed", "cannot start a gated llgo process: " + err.Error(), nil
		}
		r.wait() // up to its first cache operation a process only reads sources
	}
	cur := 0
	steps := 0
	var sched strings.Builder
	for {
		var gated []int
		for i, r := range rs {
			if r.state == 2 {
				gated = append(gated, i)
			}
		}
		if len(gated) == 0 {
			break
		}
		// decision: 0 = stay with the current racer (if it is at a gate), v>0 = the v-th other one
		pick := gated[0]
		pos := 0
		for j, g := range gated {
			if g == cur {
				pos = j
			}
		}
		v := 0
		if len(gated) > 1 {
			switch {
			case ch.Replaying():
				v = ch.Choose('r', len(gated))
			case strat == 3:
				best := -1
				for j, g := range gated {
					if best < 0 || rs[g].lookups < rs[gated[best]].lookups || rs[g].lookups == rs[gated[best]].lookups && gated[best] == cur {
						best = j
					}
				}
				v = (best - pos + len(gated)) % len(gated)
				ch.Record('r', v)
			default:
				v = ch.ChooseP('r', len(gated), float64(switchPct)/100)
			}
		}
		pick = gated[(pos+v)%len(gated)]
		if pick != cur {
			res.Probes["race-context-switches"]++
		}
		cur = pick
		r := rs[pick]
		order := byte('g')
		aimed := false
		if r.faultAt == -1 && !r.faulted {
			// aimed fault: the first write into / rename onto an archive or manifest of a module package
			f := strings.SplitN(r.pending, " ", 3)
			if len(f) == 3 && (strings.Contains(f[2], "/c13mod/") || strings.Contains(f[2], "/c13ext/")) {
				switch st.Target {
				case "archive-write":
					aimed = f[1] == "write" && strings.Contains(f[2], ".a")
				case "manifest-write":
					aimed = f[1] == "write" && strings.Contains(f[2], "manifest")
				case "archive":
					aimed = f[1] == "rename" && strings.HasSuffix(f[2], ".a")
				case "manifest":
					aimed = f[1] == "rename" && strings.HasSuffix(f[2], ".manifest")
				}
			}
		}
		if !r.faulted && r.fault == 'e' && r.nops == r.faultAt {
			switch strings.SplitN(r.pending+"  ", " ", 3)[1] {
			case "stat", "readfile", "open", "readdir":
				r.faultAt++ // a disk-full error is for an operation that writes
			}
		}
		if !r.faulted && r.fault != 0 && (r.nops == r.faultAt || aimed) {
			order = r.fault
			r.faulted = true
			res.Faults["race-"+map[byte]string{'k': "kill", 't': "torn-write-kill", 'e': "disk-error"}[order]]++
			w.logf("step %d:   builder %s meets fault %q at its operation %d (%s)", si, r.id, string(order), r.nops, opOf(r.pending, w))
		}
		if w.keep && steps < 400 {
			w.logf("step %d:   %s %s", si, r.id, opOf(r.pending, w))
		}
		sched.WriteString(r.id)
		mix(r.id + opOf(r.pending, w))
		r.release(order)
		r.wait()
		steps++
		if steps > 20000 {
			return "infra-build-failed", "a race step exceeded 20000 cache operations", nil
		}
	}
	res.Probes["race-steps"]++
	res.Counters["race-gates"] += steps
	// judge every racer
	for _, r := range rs {
		if r.killed {
			res.Faults["crash-during-build"]++
			continue
		}
		if r.err != nil {
			if r.ctx != nil && r.ctx.Err() != nil {
				// the wall-clock limit of a builder process: trouble of the machine, not a verdict
				return "infra-build-failed", fmt.Sprintf("step %d: builder %s did not finish within its wall-clock limit", si, r.id), nil
			}
			if r.faulted {
				res.Faults["disk-error-during-build"]++
				w.logf("step %d:   builder %s failed on its injected fault", si, r.id)
				continue
			}
			// does a build on a clean cache succeed?  (the property's own oracle)
			saveTag, saveOpt := w.tag, w.opt
			w.tag, w.opt = r.tag, r.opt
			cleanCache := filepath.Join(filepath.Dir(w.dir), "racecheck")
			os.RemoveAll(cleanCache)
			os.MkdirAll(cleanCache, 0o755)
			exec.Command("cp", "-al", filepath.Join(warmDir, "llgo"), filepath.Join(cleanCache, "llgo")).Run()
			saveCache := w.cache
			w.cache = cleanCache
			r2 := w.build(0, 0, false)
			w.cache = saveCache
			w.tag, w.opt = saveTag, saveOpt
			os.RemoveAll(cleanCache)
			if r2.ok {
				return "concurrent-build-fails", fmt.Sprintf("step %d: builder %s of %d concurrent builders on one cache directory failed (%s) without any injected fault of its own, although a build of the same sources on a clean cache succeeds; schedule %s", si, r.id, n, lastLines(r.log.String(), 2), clip(sched.String(), 300)), []string{"race"}
			}
			return "infra-build-failed", fmt.Sprintf("step %d: llgo build fails also with a clean cache: %s", si, lastLines(r2.buildLog, 6)), nil
		}
		// the program this racer built
		rctx, rcancel := context.WithTimeout(context.Background(), 60*time.Second)
		run := exec.CommandContext(rctx, r.out)
		run.Dir = w.dir
		var po, so bytes.Buffer
		run.Stdout, run.Stderr = &so, &po
		e := run.Run()
		rcancel()
		br := buildResult{ok: true, output: po.String(), stdout: so.String()}
		if e != nil {
			br.output += "\n[program failed: " + e.Error() + "]"
		}
		saveTag, saveOpt := w.tag, w.opt
		w.tag, w.opt = r.tag, r.opt
		mm := w.mismatch(br)
		w.tag, w.opt = saveTag, saveOpt
		mix(br.output)
		if mm != "" {
			return "stale-output-concurrent", fmt.Sprintf("step %d: the program built by builder %s of %d concurrent builders on one cache directory %s; schedule %s", si, r.id, n, mm, clip(sched.String(), 300)), []string{"race"}
		}
		w.logf("step %d:   builder %s ok (%d cache operations)", si, r.id, r.nops)
	}
	return "", "", nil
}
