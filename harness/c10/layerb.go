package main

// Layer B: the compiled artefact.  A scenario is emitted as a Go program, built
// by the real llgo (from the working tree) and run under toolchain/libdetsched
// (LD_PRELOAD), which serialises all threads and takes every scheduling,
// signal-target and spurious-wake-up decision from VERIF_SEED.  The printed
// history goes through the same oracles as Layer A.  This exercises the
// compiler lowering of chan/select/close/len/cap and the `go` statement, and
// the llgo-compiled runtime, at pthread-call granularity.

import (
	"bytes"
	"encoding/json"
	"fmt"
	"os"
	"os/exec"
	"path/filepath"
	"strconv"
	"strings"
	"time"

	"verif/driver"
	"verif/sim"
)

var (
	bLlgo  = os.Getenv("VERIF_B_LLGO")
	bShim  = os.Getenv("VERIF_B_SHIM")
	bLib   = os.Getenv("VERIF_B_LIB")
	bTmp   = os.Getenv("VERIF_B_TMP")
	bGo123 = os.Getenv("VERIF_B_GO123")
	bRepo  = os.Getenv("VERIF_B_REPO")
	bCache = os.Getenv("VERIF_B_CACHE")
)

// sanitizeB restricts a Layer-A scenario to what compiled code can be judged on:
// int elements; selects only over buffered channels (select-vs-select on
// unbuffered channels is the listed finding C10-K1/K2, whose structural
// predicate needs scheduler-internal information this layer does not have); no
// send that could follow a close (llgo does not raise the send-on-closed panic,
// which is property C03's concern, so such a history cannot be judged here).
func sanitizeB(sc *Scenario) *Scenario {
	c := clone(sc)
	for i := range c.Chans {
		// element kinds of the compiled program: 0 struct{}, 4 int32, 8 int, 16 string, 24 [3]int64, 160 [20]int64
		switch c.Chans[i].Elem {
		case 0, 8, 24, 160:
		case 1:
			c.Chans[i].Elem = 4
		default:
			c.Chans[i].Elem = 16
		}
		if (i+len(c.Tasks))%5 == 0 {
			c.Chans[i].Elem = 16
		}
	}
	for _, ops := range c.Tasks {
		for _, op := range ops {
			if op.K == "select" {
				for _, cs := range op.Cases {
					if cs.Ch >= 0 && c.Chans[cs.Ch].Cap == 0 {
						c.Chans[cs.Ch].Cap = 1
					}
				}
			}
		}
	}
	// a close survives only if every send on that channel is by the closing task and precedes the close
	for t := range c.Tasks {
		var keep []Op
		for i, op := range c.Tasks[t] {
			if op.K == "close" {
				ok := true
				for t2, ops2 := range c.Tasks {
					for i2, o2 := range ops2 {
						sends := o2.K == "send" && o2.Ch == op.Ch
						if o2.K == "select" {
							for _, cs := range o2.Cases {
								if cs.Send && cs.Ch == op.Ch {
									sends = true
								}
							}
						}
						if sends && (t2 != t || i2 > i) {
							ok = false
						}
					}
				}
				if !ok {
					continue
				}
			}
			keep = append(keep, op)
		}
		c.Tasks[t] = keep
	}
	return c
}

func elemType(es int) string {
	switch es {
	case 0:
		return "struct{}"
	case 4:
		return "int32"
	case 16:
		return "string"
	case 24:
		return "[3]int64"
	case 160:
		return "[20]int64"
	}
	return "int"
}

// mk renders the Go expression for value v of a channel's element type; dec the
// expression that turns a received element back into the value id (0 = zero value, -1 = damaged).
func mk(es, v int) string {
	switch es {
	case 0:
		return "struct{}{}"
	case 4:
		return fmt.Sprintf("int32(%d)", v)
	case 16:
		return fmt.Sprintf("itos(%d)", v)
	case 24:
		return fmt.Sprintf("[3]int64{%d, %d ^ 0x5a5a, ^%d}", v, v, v)
	case 160:
		return fmt.Sprintf("mk20(%d)", v)
	}
	return strconv.Itoa(v)
}

func dec(es int, x string) string {
	switch es {
	case 0:
		return "0"
	case 4:
		return "int(" + x + ")"
	case 16:
		return "stoi(" + x + ")"
	case 24:
		return "dec3(" + x + ")"
	case 160:
		return "dec20(" + x + ")"
	}
	return x
}

const progHelpers = `
func itos(n int) string {
	s := "v"
	d := ""
	for n > 0 {
		d = string(rune('0'+n%10)) + d
		n /= 10
	}
	return s + d + "-padding-to-make-it-longer"
}

func stoi(s string) int {
	if s == "" {
		return 0
	}
	if len(s) < 2 || s[0] != 'v' {
		return -1
	}
	n := 0
	for i := 1; i < len(s) && s[i] >= '0' && s[i] <= '9'; i++ {
		n = n*10 + int(s[i]-'0')
	}
	return n
}

// 160-byte elements: larger than anything the compiler or the runtime may treat as small
func mk20(v int) (a [20]int64) {
	for i := range a {
		a[i] = int64(v) ^ int64(i*0x1111)
	}
	return
}

func dec20(a [20]int64) int {
	zero := true
	for i := range a {
		zero = zero && a[i] == 0
	}
	if zero {
		return 0
	}
	for i := range a {
		if a[i] != a[0]^int64(i*0x1111) {
			return -1
		}
	}
	return int(a[0])
}

func dec3(a [3]int64) int {
	if a[0] == 0 && a[1] == 0 && a[2] == 0 {
		return 0
	}
	if a[1] != a[0]^0x5a5a || a[2] != ^a[0] {
		return -1
	}
	return int(a[0])
}
`

// genB draws a dense scenario for compiled programs: every channel has one
// owner task that does all sends on it (plain or as select cases) and usually
// closes it at the end, so closes are legal by construction and receives after
// close (plain, comma-ok, in blocking selects and in selects with default) are
// common; channels used in selects are buffered.
func genB(rng *sim.Rng) *Scenario {
	sc := &Scenario{}
	nch := rng.Range(2, 3)
	nt := rng.Range(2, 4)
	fanMode := rng.Intn(3) != 0
	if fanMode && nt < 3 {
		nt = rng.Range(3, 4)
	}
	for i := 0; i < nch; i++ {
		sc.Chans = append(sc.Chans, ChanSpec{Cap: rng.Range(1, 3), Elem: []int{8, 8, 4, 16, 24, 0, 160}[rng.Intn(7)]})
		sc.Perm = append(sc.Perm, i)
	}
	// one unbuffered channel used by plain operations only
	plain := -1
	if rng.Bool() {
		sc.Chans = append(sc.Chans, ChanSpec{Cap: 0, Elem: []int{8, 24, 16, 160}[rng.Intn(4)]})
		sc.Perm = append(sc.Perm, nch)
		plain = nch
		nch++
	}
	owner := make([]int, nch)
	for i := range owner {
		owner[i] = rng.Intn(nt)
	}
	// a fan: every other task starts by receiving from one channel, whose owner
	// closes it early (after a few operations that cannot block and perhaps one
	// send), so that several receivers sleep on it when values are handed over
	// and when it is closed: the wake-ups must reach all of them, not one
	fan := -1
	if fanMode {
		fan = rng.Intn(nch)
	}
	val := 0
	sc.Tasks = make([][]Op, nt)
	for t := 0; t < nt; t++ {
		n := rng.Range(3, 6)
		for i := 0; i < n; i++ {
			c := rng.Intn(nch)
			switch r := rng.Intn(10); {
			case c == fan && owner[c] == t:
				// closed early: no sends later
				sc.Tasks[t] = append(sc.Tasks[t], Op{K: []string{"len", "cap"}[rng.Intn(2)], Ch: c})
			case r < 2 && owner[c] == t && c == plain:
				val++
				sc.Tasks[t] = append(sc.Tasks[t], Op{K: "send", Ch: c, Val: val})
			case r < 4 && owner[c] == t:
				// owners mostly send without blocking, so that they reach their close
				val++
				if c == plain || rng.Intn(4) == 0 {
					sc.Tasks[t] = append(sc.Tasks[t], Op{K: "send", Ch: c, Val: val})
				} else {
					sc.Tasks[t] = append(sc.Tasks[t], Op{K: "select", Default: true, Cases: []Case{{Ch: c, Send: true, Val: val}}})
				}
			case r < 5 && owner[c] != t:
				sc.Tasks[t] = append(sc.Tasks[t], Op{K: "recv", Ch: c})
			case r < 9:
				op := Op{K: "select", Default: rng.Intn(3) != 0}
				// one form is made on purpose: a send case (on a channel this task owns)
				// in front of the receive cases, so that case index and receive index differ
				if rng.Intn(3) == 0 {
					for cc := 0; cc < nch; cc++ {
						if owner[cc] == t && cc != fan && cc != plain {
							val++
							op.Cases = append(op.Cases, Case{Ch: cc, Send: true, Val: val})
							break
						}
					}
				}
				for k, m := 0, rng.Range(1, 3); k < m; k++ {
					cc := rng.Intn(nch)
					if cc == plain {
						cc = 0
					}
					cs := Case{Ch: cc}
					if owner[cc] == t && cc != fan && rng.Bool() {
						val++
						cs.Send, cs.Val = true, val
					}
					if rng.Intn(15) == 0 {
						cs = Case{Ch: -1}
					}
					op.Cases = append(op.Cases, cs)
				}
				sc.Tasks[t] = append(sc.Tasks[t], op)
			default:
				sc.Tasks[t] = append(sc.Tasks[t], Op{K: []string{"len", "cap"}[rng.Intn(2)], Ch: c})
			}
		}
	}
	if fan >= 0 {
		var pre []Op
		for k, m := 0, rng.Range(1, 3); k < m; k++ {
			pre = append(pre, Op{K: []string{"len", "cap"}[rng.Intn(2)], Ch: rng.Intn(nch)})
		}
		if rng.Bool() {
			val++
			pre = append(pre, Op{K: "send", Ch: fan, Val: val})
		}
		pre = append(pre, Op{K: "close", Ch: fan})
		for t := 0; t < nt; t++ {
			if t == owner[fan] {
				sc.Tasks[t] = append(pre, sc.Tasks[t]...)
			} else {
				sc.Tasks[t] = append([]Op{{K: "recv", Ch: fan}}, sc.Tasks[t]...)
			}
		}
	}
	for c := 0; c < nch; c++ {
		if c != fan && rng.Intn(10) < 9 {
			sc.Tasks[owner[c]] = append(sc.Tasks[owner[c]], Op{K: "close", Ch: c})
		}
	}
	// after the closes: a few more receives by everybody (drain, then zero value with ok=false)
	for t := 0; t < nt; t++ {
		for k, m := 0, rng.Range(1, 3); k < m; k++ {
			c := rng.Intn(nch)
			if rng.Bool() && c != plain {
				sc.Tasks[t] = append(sc.Tasks[t], Op{K: "select", Default: true, Cases: []Case{{Ch: c}}})
			} else {
				sc.Tasks[t] = append(sc.Tasks[t], Op{K: "recv", Ch: c})
			}
		}
	}
	return sc
}

// fanWidth is the number of tasks that begin by receiving from a channel another task closes early.
func fanWidth(sc *Scenario) int {
	best := 0
	for c := range sc.Chans {
		early := false
		for _, ops := range sc.Tasks {
			for i := 0; i < len(ops) && i < 5; i++ {
				early = early || ops[i].K == "close" && ops[i].Ch == c
			}
		}
		n := 0
		for _, ops := range sc.Tasks {
			if len(ops) > 0 && ops[0].K == "recv" && ops[0].Ch == c {
				n++
			}
		}
		if early && n > best {
			best = n
		}
	}
	return best
}

func genProgram(sc *Scenario) string {
	var sb strings.Builder
	sb.WriteString("package main\n\nvar nilch chan int\n" + progHelpers + "\nfunc main() {\n")
	for i, c := range sc.Chans {
		fmt.Fprintf(&sb, "\tc%d := make(chan %s, %d)\n", i, elemType(c.Elem), c.Cap)
	}
	for t, ops := range sc.Tasks {
		sb.WriteString("\tgo func() {\n")
		for i, op := range ops {
			fmt.Fprintf(&sb, "\t\tprintln(\"E\", %d, %d, \"inv\")\n", t, i)
			ret := func(ok, val, sel string) string {
				return fmt.Sprintf("println(\"E\", %d, %d, \"ret\", %s, %s, %s)", t, i, ok, val, sel)
			}
			form := (t*7 + i*3 + len(ops)) % 3 // receive form: comma-ok, plain, (select only) value discarded
			switch op.K {
			case "send":
				if op.Ch < 0 {
					fmt.Fprintf(&sb, "\t\tnilch <- 1\n\t\t%s\n", ret("true", "0", "-2"))
					break
				}
				fmt.Fprintf(&sb, "\t\tc%d <- %s\n\t\t%s\n", op.Ch, mk(sc.Chans[op.Ch].Elem, op.Val), ret("true", "0", "-2"))
			case "recv":
				if op.Ch < 0 {
					fmt.Fprintf(&sb, "\t\t<-nilch\n\t\t%s\n", ret("true", "0", "-2"))
					break
				}
				es := sc.Chans[op.Ch].Elem
				if form == 1 && es != 0 {
					// plain receive: ok is what the value tells (sent values are never zero)
					fmt.Fprintf(&sb, "\t\t{\n\t\t\tv := <-c%d\n\t\t\t%s\n\t\t}\n", op.Ch, ret(dec(es, "v")+" != 0", dec(es, "v"), "-2"))
				} else {
					fmt.Fprintf(&sb, "\t\t{\n\t\t\tv, ok := <-c%d\n\t\t\t_ = v\n\t\t\t%s\n\t\t}\n", op.Ch, ret("ok", dec(es, "v"), "-2"))
				}
			case "close":
				fmt.Fprintf(&sb, "\t\tclose(c%d)\n\t\t%s\n", op.Ch, ret("true", "0", "-2"))
			case "len":
				fmt.Fprintf(&sb, "\t\t%s\n", ret("true", fmt.Sprintf("len(c%d)", op.Ch), "-2"))
			case "cap":
				fmt.Fprintf(&sb, "\t\t%s\n", ret("true", fmt.Sprintf("cap(c%d)", op.Ch), "-2"))
			case "select":
				sb.WriteString("\t\tselect {\n")
				for k, cs := range op.Cases {
					name, es := "nilch", 8
					if cs.Ch >= 0 {
						name, es = fmt.Sprintf("c%d", cs.Ch), sc.Chans[cs.Ch].Elem
					}
					if cs.Send {
						fmt.Fprintf(&sb, "\t\tcase %s <- %s:\n\t\t\t%s\n", name, mk(es, cs.Val), ret("true", "0", strconv.Itoa(k)))
					} else if (form+k)%3 == 1 && es != 0 {
						fmt.Fprintf(&sb, "\t\tcase v := <-%s:\n\t\t\t%s\n", name, ret(dec(es, "v")+" != 0", dec(es, "v"), strconv.Itoa(k)))
					} else {
						fmt.Fprintf(&sb, "\t\tcase v, ok := <-%s:\n\t\t\t_ = v\n\t\t\t%s\n", name, ret("ok", dec(es, "v"), strconv.Itoa(k)))
					}
				}
				if op.Default {
					fmt.Fprintf(&sb, "\t\tdefault:\n\t\t\t%s\n", ret("false", "0", "-1"))
				}
				sb.WriteString("\t\t}\n")
			}
		}
		sb.WriteString("\t}()\n")
	}
	sb.WriteString("\tselect {}\n}\n")
	return sb.String()
}

func bEnv(cache string) []string {
	return []string{"PATH=" + bGo123 + ":/usr/bin:/bin", "HOME=" + bTmp, "LLGO_ROOT=" + bRepo, "LLVM_CONFIG=" + bShim + "/bin/llvm-config",
		"GOTOOLCHAIN=local", "GOFLAGS=-mod=mod", "GOPROXY=off", "GOWORK=off", "XDG_CACHE_HOME=" + cache,
		"GOCACHE=" + os.Getenv("VERIF_B_GOCACHE"), "GOMODCACHE=" + os.Getenv("VERIF_B_GOMODCACHE")}
}

func buildProgram(dir, src string) (string, error) {
	os.MkdirAll(dir, 0o755)
	os.WriteFile(filepath.Join(dir, "go.mod"), []byte("module progb\n\ngo 1.23\n"), 0o644)
	os.WriteFile(filepath.Join(dir, "main.go"), []byte(src), 0o644)
	bin := filepath.Join(dir, "prog.out")
	// -O0: LLVM 14's optimiser, with the opaque pointers this sandbox has to force
	// on, merges getelementptr instructions that differ only in their source
	// element type (seen in runtime.typehash: the array length read from the
	// TFlag field's address); such miscompilations are the sandbox's, not llgo's
	cmd := exec.Command(bLlgo, "build", "-O0", "-o", bin, ".")
	cmd.Dir = dir
	cmd.Env = bEnv(bCache)
	out, err := cmd.CombinedOutput()
	if err != nil {
		return "", fmt.Errorf("llgo build failed: %v\n%s", err, tailStr(string(out), 1500))
	}
	return bin, nil
}

func tailStr(s string, n int) string {
	if len(s) > n {
		return s[len(s)-n:]
	}
	return s
}

type bRun struct {
	out      string
	end      string // quiescent main-exit stepcap crash timeout
	exitCode int
}

func runSchedule(bin string, seed uint64, spurious int) bRun {
	// address-space randomisation off: pointer values (hashed map keys, channel
	// addresses that order a select's cases) are then the same in every process
	cmd := exec.Command("/usr/bin/setarch", "x86_64", "-R", bin)
	if _, err := os.Stat("/usr/bin/setarch"); err != nil {
		cmd = exec.Command(bin)
	}
	cmd.Env = []string{"LD_PRELOAD=" + bLib, "VERIF_SEED=" + strconv.FormatUint(seed, 10), "VERIF_SPURIOUS=" + strconv.Itoa(spurious), "GC_DONT_GC=1", "GC_MARKERS=1", "VERIF_MAX_STEPS=100000"}
	var buf bytes.Buffer
	cmd.Stdout, cmd.Stderr = &buf, &buf
	done := make(chan error, 1)
	if err := cmd.Start(); err != nil {
		return bRun{end: "crash", out: err.Error()}
	}
	go func() { done <- cmd.Wait() }()
	var err error
	select {
	case err = <-done:
	case <-time.After(20 * time.Second):
		cmd.Process.Kill()
		<-done
		return bRun{out: buf.String(), end: "timeout"}
	}
	r := bRun{out: buf.String()}
	if ee, ok := err.(*exec.ExitError); ok {
		r.exitCode = ee.ExitCode()
	}
	switch {
	case strings.Contains(r.out, "QUIESCENT"):
		r.end = "quiescent"
	case strings.Contains(r.out, "STEPCAP"):
		r.end = "stepcap"
	case err != nil:
		r.end = "crash"
	default:
		r.end = "main-exit"
	}
	return r
}

// parseHistory turns the printed event lines into operation records stamped
// with their line numbers (only one thread runs at a time, so the order of the
// lines is the order of the events).
func parseHistory(sc *Scenario, out string) ([]*opRec, string) {
	var recs []*opRec
	idx := map[[2]int]*opRec{}
	for t, ops := range sc.Tasks {
		for i := range ops {
			r := &opRec{Task: t, Idx: i, Op: &sc.Tasks[t][i], Sel: -2}
			recs = append(recs, r)
			idx[[2]int{t, i}] = r
		}
	}
	for n, line := range strings.Split(out, "\n") {
		f := strings.Fields(line)
		if len(f) < 4 || f[0] != "E" {
			continue
		}
		t, _ := strconv.Atoi(f[1])
		i, _ := strconv.Atoi(f[2])
		r := idx[[2]int{t, i}]
		if r == nil {
			return nil, "unexpected event line: " + line
		}
		stamp := uint64(n + 1)
		if f[3] == "inv" {
			r.Inv = stamp
			continue
		}
		if len(f) < 7 {
			return nil, "short event line: " + line
		}
		r.Ret = stamp
		r.OK = f[4] == "true"
		v, _ := strconv.Atoi(f[5])
		sel, _ := strconv.Atoi(f[6])
		switch r.Op.K {
		case "recv":
			r.Val = v
		case "len", "cap":
			r.N = v
		case "send", "close":
			r.OK = true
		case "select":
			r.Sel = sel
			if sel >= 0 && sel < len(r.Op.Cases) && !r.Op.Cases[sel].Send {
				r.Val = v
			}
			if sel >= 0 && sel < len(r.Op.Cases) && r.Op.Cases[sel].Send {
				r.OK = true
			}
		}
	}
	return recs, ""
}

type bReplay struct {
	Layer    string    `json:"layer"`
	Scenario *Scenario `json:"scenario"`
	Program  string    `json:"program"`
	Seed     uint64    `json:"sched_seed"`
	Spurious int       `json:"spurious_per_mille"`
	Class    string    `json:"violation_class"`
	Detail   string    `json:"detail"`
	Output   string    `json:"output"`
}

func judgeB(sc *Scenario, r bRun) (string, string) {
	switch r.end {
	case "timeout":
		return "infra-timeout", "a compiled program did not finish within 20 s wall-clock under the deterministic scheduler"
	case "stepcap":
		return "liveness", "the compiled program did not reach quiescence within 100000 scheduling steps"
	case "crash":
		return "runtime-panic", "the compiled program died: " + tailStr(r.out, 300)
	}
	recs, perr := parseHistory(sc, r.out)
	if perr != "" {
		return "infra-parse", perr
	}
	s := sim.New(sim.Config{}, sim.NewChoices(1))
	s.End = sim.EndQuiescent
	if r.end == "main-exit" {
		s.End = sim.EndAbort
	}
	res := &driver.Result{Counters: map[string]int{}}
	return check(sc, s, recs, res)
}

// ExtraPhase implements driver.ExtraPhaser.
func (prop) ExtraPhase(tier string, seed uint64, deadline time.Time) (*driver.ExtraResult, error) {
	if bLlgo == "" {
		return nil, nil
	}
	er := &driver.ExtraResult{Name: "layer_b", Coverage: map[string]any{}}
	nprog, nsched := 8, 100
	if tier == "thorough" {
		nprog, nsched = 60, 1500
	}
	hashes := map[string]bool{}
	ends := map[string]int{}
	fans := map[string]int{}
	detChecks := 0
	runs := 0
	var sample any
	// however loaded the machine is, a minimum is always run: 8 programs, 25 schedules each
	// (the regression matrix showed three compiler-side seeded changes slipping
	// through when a loaded machine cut the phase down to three programs)
	for pi := 0; pi < nprog && (pi < 8 || time.Now().Before(deadline)); pi++ {
		ch := sim.NewChoices(sim.RunSeed(seed^0xb1a7e5, uint64(pi)))
		var sc *Scenario
		if pi%4 == 3 {
			sc = sanitizeB(prop{}.Generate(ch.Rng(), tier, pi).(*Scenario))
		} else {
			sc = genB(ch.Rng())
		}
		src := genProgram(sc)
		fans[fmt.Sprintf("%d-receivers", fanWidth(sc))]++
		dir := filepath.Join(bTmp, fmt.Sprintf("prog-%d", pi))
		bin, err := buildProgram(dir, src)
		if err != nil {
			return nil, fmt.Errorf("layer B program %d: %v", pi, err)
		}
		for k := 0; k < nsched && (k < 25 || time.Now().Before(deadline)); k++ {
			ss := sim.RunSeed(seed^0x5c4ed, uint64(pi*100000+k))
			sp := []int{0, 0, 30, 200}[k%4]
			r := runSchedule(bin, ss, sp)
			runs++
			ends[r.end]++
			hashes[r.out] = true
			cls, det := judgeB(sc, r)
			if k%25 == 0 {
				// determinism self-check: the same schedule seed in a second process
				if r2 := runSchedule(bin, ss, sp); r2.out != r.out {
					return nil, fmt.Errorf("layer B: schedule seed %d of program %d does not replay (outputs of two processes differ)", ss, pi)
				}
				detChecks++
			}
			if strings.HasPrefix(cls, "infra-") {
				return nil, fmt.Errorf("layer B: %s", det)
			}
			if sample == nil && k == 1 {
				sample = map[string]any{"program": src, "sched_seed": ss, "output": strings.Split(strings.TrimSpace(r.out), "\n")}
			}
			if cls != "" {
				// exact replay in a fresh process
				r2 := runSchedule(bin, ss, sp)
				if r2.out != r.out {
					return nil, fmt.Errorf("layer B: schedule seed %d of program %d does not replay (outputs differ)", ss, pi)
				}
				rp := bReplay{Layer: "B", Scenario: sc, Program: src, Seed: ss, Spurious: sp, Class: cls, Detail: det, Output: r.out}
				b, _ := json.MarshalIndent(rp, "", " ")
				er.Violations = append(er.Violations, driver.ExtraViolation{Class: cls, Detail: "[compiled program under libdetsched] " + det, Name: fmt.Sprintf("B-%d-%d", pi, k), Replay: b})
				break
			}
		}
		os.RemoveAll(dir)
		if len(er.Violations) >= 3 {
			break
		}
	}
	er.Evaluations = runs
	er.Coverage["programs_compiled_by_llgo"] = nprog
	er.Coverage["schedules_run"] = runs
	er.Coverage["distinct_printed_histories"] = len(hashes)
	er.Coverage["run_endings"] = ends
	er.Coverage["schedules_run_twice_with_identical_output"] = detChecks
	er.Coverage["programs_by_receiver_fan_on_an_early_closed_channel"] = fans
	er.Coverage["sample"] = sample
	er.Coverage["components"] = "real: llgo compiler lowering of chan/select/go, llgo-compiled runtime; stub: pthread mutex/cond/once/sem and thread scheduling (toolchain/libdetsched.c), LLVM 14, bdwgc with collection disabled"
	return er, nil
}

// ReplayExtra re-executes a Layer-B violation: rebuild the program, run the recorded schedule seed.
func (prop) ReplayExtra(raw []byte) (string, string, error) {
	var rp bReplay
	if err := json.Unmarshal(raw, &rp); err != nil {
		return "", "", err
	}
	dir := filepath.Join(bTmp, "replay-prog")
	defer os.RemoveAll(dir)
	bin, err := buildProgram(dir, rp.Program)
	if err != nil {
		return "", "", err
	}
	r := runSchedule(bin, rp.Seed, rp.Spurious)
	fmt.Print(r.out)
	cls, det := judgeB(rp.Scenario, r)
	return cls, det, nil
}
