package main

import (
	"fmt"
	"sort"
	"time"

	"github.com/anishathalye/porcupine"

	"verif/driver"
	"verif/sim"
)

// chanEv is one operation as seen by one channel: a plain op, or the committed
// case of a select.  Pending selects contribute one pending chanEv per case.
type chanEv struct {
	r       *opRec
	ch      int
	kind    string // send recv close len cap
	val     int    // value sent
	pending bool
	fromSel bool
}

func collect(sc *Scenario, recs []*opRec) (evs [][]*chanEv, maxStamp uint64) {
	evs = make([][]*chanEv, len(sc.Chans))
	for _, r := range recs {
		if r.Inv == 0 {
			continue
		}
		if r.Ret > maxStamp {
			maxStamp = r.Ret
		}
		if r.Inv > maxStamp {
			maxStamp = r.Inv
		}
		if r.Op.K != "select" && r.Op.Ch < 0 {
			continue // an operation on a nil channel: it blocks forever and touches no channel
		}
		if r.Op.K != "select" {
			e := &chanEv{r: r, ch: r.Op.Ch, kind: r.Op.K, val: r.Op.Val, pending: r.Ret == 0}
			evs[e.ch] = append(evs[e.ch], e)
			continue
		}
		if r.Ret == 0 {
			for _, c := range r.Op.Cases {
				if c.Ch < 0 {
					continue
				}
				k := "recv"
				if c.Send {
					k = "send"
				}
				evs[c.Ch] = append(evs[c.Ch], &chanEv{r: r, ch: c.Ch, kind: k, val: c.Val, pending: true, fromSel: true})
			}
			continue
		}
		if r.Sel >= 0 && r.Sel < len(r.Op.Cases) {
			c := r.Op.Cases[r.Sel]
			if c.Ch < 0 {
				continue
			}
			k := "recv"
			if c.Send {
				k = "send"
			}
			evs[c.Ch] = append(evs[c.Ch], &chanEv{r: r, ch: c.Ch, kind: k, val: c.Val, fromSel: true})
		}
	}
	return
}

func check(sc *Scenario, s *sim.Sim, recs []*opRec, res *driver.Result) (string, string) {
	if len(s.Misuse) > 0 {
		return "pthread-misuse", s.Misuse[0]
	}
	for _, t := range s.Tasks {
		if t.Panicked {
			return "runtime-panic", fmt.Sprintf("task %d: the channel code panicked: %v", t.ID, t.Panic)
		}
	}
	if s.End == sim.EndStepCap {
		return "liveness", fmt.Sprintf("no quiescence within %d fair fault-free steps after %d steps", s.Cfg.LiveSteps, s.Cfg.MaxSteps)
	}
	for _, r := range recs {
		if r.Op.K != "select" && r.Op.Ch < 0 && (r.Ret != 0 || r.Stray != "") {
			return "nil-channel-op-returned", fmt.Sprintf("t%d op%d: %s on a nil channel returned; it must block forever", r.Task, r.Idx, r.Op.K)
		}
	}
	evs, maxStamp := collect(sc, recs)

	// select sanity
	for _, r := range recs {
		if r.Op.K == "select" && r.Ret != 0 {
			if r.Sel >= len(r.Op.Cases) || r.Sel < -1 {
				return "select-bad-index", fmt.Sprintf("t%d op%d: %s returned case index %d", r.Task, r.Idx, r.Op, r.Sel)
			}
			if r.Sel >= 0 && r.Op.Cases[r.Sel].Ch < 0 {
				return "select-nil-case", fmt.Sprintf("t%d op%d: %s committed a nil-channel case", r.Task, r.Idx, r.Op)
			}
			if r.Sel == -1 && !r.Op.Default {
				return "select-bad-index", fmt.Sprintf("t%d op%d: blocking %s returned no case", r.Task, r.Idx, r.Op)
			}
			if r.Stray != "" {
				return "select-double-commit", fmt.Sprintf("t%d op%d: %s: %s", r.Task, r.Idx, r.Op, r.Stray)
			}
		}
	}

	for c, list := range evs {
		spec := sc.Chans[c]
		hasVal := spec.Elem > 0
		var closeEv *chanEv
		sends := map[int]*chanEv{} // by value, sends that took effect or may have
		for _, e := range list {
			if e.kind == "close" {
				closeEv = e
			}
			if e.kind == "send" {
				sends[e.val] = e
			}
		}
		recvOf := map[int]*chanEv{}
		for _, e := range list {
			if e.kind != "recv" || e.pending {
				continue
			}
			r := e.r
			if r.Val == -1 {
				return "torn-value", fmt.Sprintf("ch%d: t%d op%d received a torn %d-byte element", c, r.Task, r.Idx, spec.Elem)
			}
			if !r.OK {
				// (zero,false) is only allowed once the channel is closed
				if closeEv == nil || closeEv.r.Inv > r.Ret {
					return "closed-without-close", fmt.Sprintf("ch%d: t%d op%d returned ok=false but no close had been invoked", c, r.Task, r.Idx)
				}
				if r.Val != 0 {
					return "closed-recv-carries-value", fmt.Sprintf("ch%d: t%d op%d returned (v%d, ok=false): a sent value was delivered but reported as the closed-channel zero value", c, r.Task, r.Idx, r.Val)
				}
				continue
			}
			if !hasVal {
				continue
			}
			snd, ok := sends[r.Val]
			if !ok || r.Val == 0 {
				// also covers a select whose send case was not the committed one
				return "phantom-value", fmt.Sprintf("ch%d: t%d op%d received v%d which no send on this channel reports having sent", c, r.Task, r.Idx, r.Val)
			}
			if snd.r.Inv > r.Ret {
				return "phantom-value", fmt.Sprintf("ch%d: t%d op%d received v%d before its send was invoked", c, r.Task, r.Idx, r.Val)
			}
			if !snd.pending && !snd.r.OK {
				return "phantom-value", fmt.Sprintf("ch%d: v%d was received although its send reported 'closed'", c, r.Val)
			}
			if prev, dup := recvOf[r.Val]; dup {
				return "duplicate-delivery", fmt.Sprintf("ch%d: v%d received twice (t%d op%d and t%d op%d)", c, r.Val, prev.r.Task, prev.r.Idx, r.Task, r.Idx)
			}
			recvOf[r.Val] = e
		}
		// count-based conservation, sweeping events in stamp order
		type pt struct {
			at    uint64
			delta [4]int // completedSends, completedRecvs, sendersInside, receiversInside
		}
		var pts []pt
		nSendOK, nRecvOK := 0, 0
		for _, e := range list {
			switch e.kind {
			case "send":
				pts = append(pts, pt{e.r.Inv, [4]int{0, 0, 1, 0}})
				if !e.pending {
					d := [4]int{0, 0, -1, 0}
					if e.r.OK {
						d[0] = 1
						nSendOK++
					}
					pts = append(pts, pt{e.r.Ret, d})
				}
			case "recv":
				pts = append(pts, pt{e.r.Inv, [4]int{0, 0, 0, 1}})
				if !e.pending {
					d := [4]int{0, 0, 0, -1}
					if e.r.OK {
						d[1] = 1
						nRecvOK++
					}
					pts = append(pts, pt{e.r.Ret, d})
				}
			}
		}
		sort.Slice(pts, func(i, j int) bool { return pts[i].at < pts[j].at })
		var cs, cr, si, ri int
		for _, p := range pts {
			cs += p.delta[0]
			cr += p.delta[1]
			si += p.delta[2]
			ri += p.delta[3]
			n := cs - cr
			if n > spec.Cap+ri {
				return "over-capacity", fmt.Sprintf("ch%d (cap %d): at event #%d %d sends had completed but only %d receives had, with %d receivers inside a receive", c, spec.Cap, p.at, cs, cr, ri)
			}
			if -n > si {
				return "receive-without-send", fmt.Sprintf("ch%d: at event #%d %d receives had completed with ok=true but only %d sends had, with %d senders inside a send", c, p.at, cr, cs, si)
			}
		}
		// len / cap results
		for _, e := range list {
			if e.pending {
				continue
			}
			if e.kind == "len" && (e.r.N < 0 || e.r.N > spec.Cap) {
				return "len-out-of-range", fmt.Sprintf("ch%d (cap %d): len returned %d", c, spec.Cap, e.r.N)
			}
			if e.kind == "cap" && e.r.N != spec.Cap {
				return "cap-wrong", fmt.Sprintf("ch%d (cap %d): cap returned %d", c, spec.Cap, e.r.N)
			}
		}
		// receives that begin after close returned
		if closeEv != nil && !closeEv.pending && spec.Cap == 0 {
			for _, e := range list {
				if e.kind == "recv" && !e.pending && !e.fromSel && e.r.Inv > closeEv.r.Ret && e.r.OK {
					return "recv-after-close", fmt.Sprintf("ch%d (unbuffered): t%d op%d began after close returned and still received ok=true", c, e.r.Task, e.r.Idx)
				}
			}
		}
		if spec.Cap == 0 {
			// rendezvous matching
			for _, e := range list {
				if e.kind != "send" || e.pending || !e.r.OK {
					continue
				}
				if !hasVal {
					continue
				}
				rv, ok := recvOf[e.val]
				if !ok {
					// a receiver that is still inside its receive may hold it (flagged as stuck below)
					held := false
					for _, x := range list {
						if x.kind == "recv" && x.pending {
							held = true
						}
					}
					if held {
						continue
					}
					return "lost-value", fmt.Sprintf("ch%d (unbuffered): t%d op%d sent v%d and returned, but no receive reports it", c, e.r.Task, e.r.Idx, e.val)
				}
				if rv.r.Ret < e.r.Inv || e.r.Ret < rv.r.Inv {
					return "rendezvous-without-overlap", fmt.Sprintf("ch%d (unbuffered): send of v%d [#%d,#%d] and its receive [#%d,#%d] do not overlap", c, e.val, e.r.Inv, e.r.Ret, rv.r.Inv, rv.r.Ret)
				}
			}
			if !hasVal && nSendOK > nRecvOK {
				pend := 0
				for _, x := range list {
					if x.kind == "recv" && x.pending {
						pend++
					}
				}
				if pend == 0 {
					return "lost-value", fmt.Sprintf("ch%d (unbuffered, zero-size elements): %d sends completed but only %d receives returned ok=true", c, nSendOK, nRecvOK)
				}
			}
			// FIFO for sends ordered in real time
			var done []*chanEv
			for _, e := range list {
				if e.kind == "send" && !e.pending && e.r.OK && hasVal && recvOf[e.val] != nil {
					done = append(done, e)
				}
			}
			for _, a := range done {
				for _, b := range done {
					if a.r.Ret < b.r.Inv { // a entirely before b
						ra, rb := recvOf[a.val], recvOf[b.val]
						if rb.r.Ret < ra.r.Inv {
							return "fifo", fmt.Sprintf("ch%d: v%d was sent entirely before v%d but received entirely after it", c, a.val, b.val)
						}
					}
				}
			}
		} else {
			if cls, det := linearizable(c, spec, list, recvOf, maxStamp, res); cls != "" {
				return cls, det
			}
		}
	}
	if cls, det := stuck(sc, s, evs, recs, res); cls != "" {
		return cls, det
	}
	if cls, det := defaultOracle(sc, recs, evs); cls != "" {
		return cls, det
	}
	return parkedPeerOracle(sc, recs, res)
}

// ---- buffered channels: linearizability against a bounded FIFO queue -------------------

type qState struct {
	q      string // values as bytes
	closed bool
}

type qIn struct {
	kind string
	val  int
}

type qOut struct {
	ok  bool
	val int
	n   int
}

func linearizable(c int, spec ChanSpec, list []*chanEv, recvOf map[int]*chanEv, maxStamp uint64, res *driver.Result) (string, string) {
	hasVal := spec.Elem > 0
	model := porcupine.Model{
		Init: func() interface{} { return qState{} },
		Step: func(st, in, out interface{}) (bool, interface{}) {
			s := st.(qState)
			i := in.(qIn)
			o := out.(qOut)
			switch i.kind {
			case "send":
				if !o.ok {
					return s.closed, s
				}
				if s.closed || len(s.q) >= spec.Cap {
					return false, s
				}
				v := byte(0)
				if hasVal {
					v = byte(i.val)
				}
				return true, qState{s.q + string([]byte{v}), s.closed}
			case "recv":
				if !o.ok {
					return s.closed && len(s.q) == 0, s
				}
				if len(s.q) == 0 {
					return false, s
				}
				if hasVal && s.q[0] != byte(o.val) {
					return false, s
				}
				return true, qState{s.q[1:], s.closed}
			case "close":
				return true, qState{s.q, true}
			case "len":
				return o.n == len(s.q), s
			}
			return true, s
		},
		Equal: func(a, b interface{}) bool { return a.(qState) == b.(qState) },
	}
	var ops []porcupine.Operation
	for _, e := range list {
		if e.kind == "cap" {
			continue
		}
		if e.pending {
			// a pending send took effect iff its value was received; other pending
			// operations (blocked at quiescence) had no effect
			if e.kind == "send" && hasVal && recvOf[e.val] != nil {
				ops = append(ops, porcupine.Operation{ClientId: e.r.Task, Input: qIn{"send", e.val}, Call: int64(e.r.Inv), Output: qOut{ok: true}, Return: int64(maxStamp) + 1})
			}
			continue
		}
		ops = append(ops, porcupine.Operation{ClientId: e.r.Task, Input: qIn{e.kind, e.val}, Call: int64(e.r.Inv),
			Output: qOut{ok: e.r.OK || e.kind == "close", val: e.r.Val, n: e.r.N}, Return: int64(e.r.Ret)})
	}
	if len(ops) == 0 {
		return "", ""
	}
	if len(ops) > 40 {
		res.Counters["porcupine-skipped-long"]++
		return "", ""
	}
	switch porcupine.CheckOperationsTimeout(model, ops, 5*time.Second) {
	case porcupine.Ok:
		res.Counters["porcupine-ok"]++
	case porcupine.Unknown:
		res.Counters["porcupine-unknown"]++
	case porcupine.Illegal:
		res.Counters["porcupine-illegal"]++
		d := ""
		for _, o := range ops {
			d += fmt.Sprintf(" t%d:%v->%v[#%d,#%d]", o.ClientId, o.Input, o.Output, o.Call, o.Return)
		}
		return "not-linearizable", fmt.Sprintf("ch%d (cap %d): history has no linearization against a bounded FIFO queue:%s", c, spec.Cap, d)
	}
	return "", ""
}

// ---- lost wake-ups / deadlock at quiescence (counting model) -----------------------------

func opKind(e *chanEv) string {
	if e.fromSel {
		return "select-" + e.kind
	}
	return e.kind
}

// mutualHandoff returns the set of tasks whose blocked select is parked in the
// hand-off wait of an unbuffered receive (on a channel's own condition
// variable instead of the select's wake-up token) while the only senders it can
// be waiting for are send cases of other selects in the same situation.
// Channel i owns sim objects 2i+1 (mutex) and 2i+2 (cond) by construction order.
func mutualHandoff(sc *Scenario, s *sim.Sim, recs []*opRec) (parked map[int]int, mutual map[int]bool) {
	parked = map[int]int{} // task -> channel it is parked on
	pendingSel := map[int]*opRec{}
	for _, r := range recs {
		if r.Inv != 0 && r.Ret == 0 && r.Op.K == "select" {
			pendingSel[r.Task] = r
		}
	}
	for _, t := range s.EndBlocked {
		if _, ok := pendingSel[t.ID]; ok && t.EndState == sim.BlockedCond && t.BlockObj <= 2*len(sc.Chans) && t.BlockObj%2 == 0 {
			parked[t.ID] = t.BlockObj/2 - 1
		}
	}
	mutual = map[int]bool{}
	for t := range parked {
		mutual[t] = true
	}
	for changed := true; changed; {
		changed = false
		for t := range mutual {
			x := parked[t]
			ok := false
			for u := range mutual {
				if u == t {
					continue
				}
				for _, c := range pendingSel[u].Op.Cases {
					if c.Send && c.Ch == x {
						ok = true
					}
				}
			}
			if !ok {
				delete(mutual, t)
				changed = true
			}
		}
	}
	return
}

// selectRefusesSelectSenders: does the receive case on channel x of this select
// decline senders that are themselves select cases?  (The documented
// limitation of the select implementation: a select that probes its sends
// first, or that also sends on x, only accepts blocked plain senders.)
func selectRefusesSelectSenders(sc *Scenario, op *Op, x int) bool {
	minS, minR := 1<<30, 1<<30
	sendsOnX := false
	for _, c := range op.Cases {
		if c.Ch < 0 {
			continue
		}
		a := sc.Perm[c.Ch]
		if c.Send {
			if a < minS {
				minS = a
			}
			if c.Ch == x {
				sendsOnX = true
			}
		} else if a < minR {
			minR = a
		}
	}
	sendFirst := minS != 1<<30 && (minR == 1<<30 || minS < minR)
	return sendFirst || sendsOnX
}

func stuck(sc *Scenario, s *sim.Sim, evs [][]*chanEv, recs []*opRec, res *driver.Result) (string, string) {
	if s.End != sim.EndQuiescent {
		return "", ""
	}
	parked, mutual := mutualHandoff(sc, s, recs)
	first := ""
	add := func(c int, a, b *chanEv, why, detail string) {
		t := []string{why}
		if sc.Chans[c].Cap == 0 {
			t = append(t, "unbuffered")
		} else {
			t = append(t, "buffered")
		}
		if b != nil {
			t = append(t, "pair:"+opKind(a)+"+"+opKind(b))
		} else {
			t = append(t, "single:"+opKind(a))
		}
		for _, e := range []*chanEv{a, b} {
			if e == nil {
				continue
			}
			if mutual[e.r.Task] {
				t = append(t, "involves-select-in-mutual-handoff-wait")
			} else if _, ok := parked[e.r.Task]; ok {
				t = append(t, "involves-select-in-handoff-wait")
			}
		}
		if b != nil && a.fromSel && b.fromSel && selectRefusesSelectSenders(sc, b.r.Op, c) {
			t = append(t, "recv-select-declines-select-senders")
		}
		res.Items = append(res.Items, driver.Item{Tags: t, Detail: detail})
		if first == "" {
			first = detail
		}
	}
	for c, list := range evs {
		spec := sc.Chans[c]
		n := 0
		closed := false
		var pendSend, pendRecv []*chanEv
		for _, e := range list {
			switch {
			case e.kind == "close" && !e.pending:
				closed = true
			case e.kind == "send" && !e.pending && e.r.OK:
				n++
			case e.kind == "recv" && !e.pending && e.r.OK:
				n--
			case e.kind == "send" && e.pending:
				pendSend = append(pendSend, e)
			case e.kind == "recv" && e.pending:
				pendRecv = append(pendRecv, e)
			}
		}
		for _, e := range pendRecv {
			if closed {
				add(c, e, nil, "closed", fmt.Sprintf("ch%d: t%d op%d (%s) is blocked in a receive although the channel is closed", c, e.r.Task, e.r.Idx, e.r.Op))
			} else if n > 0 {
				add(c, e, nil, "values-available", fmt.Sprintf("ch%d: t%d op%d (%s) is blocked in a receive although %d sent value(s) have not been received", c, e.r.Task, e.r.Idx, e.r.Op, n))
			}
		}
		for _, e := range pendSend {
			if !closed && spec.Cap > 0 && n < spec.Cap {
				add(c, e, nil, "space-available", fmt.Sprintf("ch%d (cap %d): t%d op%d (%s) is blocked in a send although only %d value(s) are buffered", c, spec.Cap, e.r.Task, e.r.Idx, e.r.Op, n))
			}
		}
		if !closed {
			for _, a := range pendSend {
				for _, b := range pendRecv {
					if a.r.Task != b.r.Task {
						add(c, a, b, "send-and-receive-pending", fmt.Sprintf("ch%d: t%d op%d (%s) and t%d op%d (%s) are both blocked although the send and the receive could complete together", c, a.r.Task, a.r.Idx, a.r.Op, b.r.Task, b.r.Idx, b.r.Op))
					}
				}
			}
		}
	}
	if first != "" {
		return "stuck", first
	}
	return "", ""
}

// ---- select default on an unbuffered channel: not while a peer is parked ---------------------
//
// A send (receive) case on an unbuffered channel is ready when a receiver
// (sender) is waiting on it.  "Waiting" cannot be read off invocation stamps (a
// task may have invoked its receive without having reached the channel yet), so
// this oracle uses the simulator's knowledge: a peer counts if it was asleep when
// the select with default was invoked, its pending operation is a blocking
// receive (send) on the channel, or a blocking select with such a case, and it
// was still pending when the select returned.  Every other operation of the
// same direction as the select's case that overlaps the call may have taken
// one such peer; what remains must be positive for a verdict.
func parkedPeerOracle(sc *Scenario, recs []*opRec, res *driver.Result) (string, string) {
	for _, r := range recs {
		if r.Op.K != "select" || !r.Op.Default || r.Ret == 0 || r.Sel != -1 || r.Parked == nil {
			continue
		}
		for k, cs := range r.Op.Cases {
			if cs.Ch < 0 || sc.Chans[cs.Ch].Cap != 0 {
				continue
			}
			peers, plainPeers, rivals, closed := 0, 0, 0, false
			selectAround := false
			for _, q := range recs {
				if q == r || q.Inv == 0 {
					continue
				}
				overlaps := q.Inv < r.Ret && (q.Ret == 0 || q.Ret > r.Inv)
				if q.Op.K == "select" && overlaps {
					for _, qc := range q.Op.Cases {
						selectAround = selectAround || qc.Ch == cs.Ch
					}
				}
				if q.Op.K == "close" && q.Op.Ch == cs.Ch && q.Inv < r.Ret {
					closed = true
				}
				// does q contain a blocking operation of the opposite direction on this channel?
				opposite, same, plain := false, false, false
				switch q.Op.K {
				case "send", "recv":
					if q.Op.Ch == cs.Ch {
						if (q.Op.K == "send") != cs.Send {
							opposite, plain = true, true
						} else {
							same = true
						}
					}
				case "select":
					for _, qc := range q.Op.Cases {
						if qc.Ch == cs.Ch {
							if qc.Send != cs.Send {
								opposite = opposite || !q.Op.Default
							} else {
								same = true
							}
						}
					}
				}
				if opposite && q.Inv < r.Inv && (q.Ret == 0 || q.Ret > r.Ret) && r.Parked[q.Task] {
					peers++
					if plain {
						plainPeers++
					}
				}
				if same && overlaps {
					rivals++
				}
			}
			if closed || peers-rivals <= 0 {
				continue
			}
			dir := map[bool]string{true: "receiver", false: "sender"}[cs.Send]
			detail := fmt.Sprintf("t%d op%d: %s took default although %d %s(s) had been asleep on unbuffered ch%d since before the select began and stayed so until after it returned (case %d; %d of them in a plain operation; %d rival operation(s) overlapped)", r.Task, r.Idx, r.Op, peers, dir, cs.Ch, k, plainPeers, rivals)
			tags := []string{"unbuffered", "peer-asleep-during-the-whole-call"}
			if plainPeers == 0 {
				tags = append(tags, "every-waiting-peer-is-a-select")
			} else if plainPeers-rivals <= 0 {
				tags = append(tags, "plain-peers-possibly-taken-by-rivals")
			} else {
				tags = append(tags, "plain-peer-waiting")
			}
			if plainPeers >= 2 || peers >= 2 {
				tags = append(tags, "several-peers-waiting")
			}
			if cs.Send && r.Announced[cs.Ch] && rivals == 0 && !selectAround {
				// the channel itself said "a receiver waits": no excuse in its design
				tags = append(tags, "handoff-slot-announced-a-waiting-receiver")
			}
			if cs.Send {
				tags = append(tags, "try-send")
			} else {
				tags = append(tags, "try-receive")
			}
			res.Items = append(res.Items, driver.Item{Tags: tags, Detail: detail})
			return "default-while-ready", detail
		}
	}
	return "", ""
}

// ---- select default: only when no case was ready (narrow, count-based form) ---------------

func defaultOracle(sc *Scenario, recs []*opRec, evs [][]*chanEv) (string, string) {
	for _, r := range recs {
		if r.Op.K != "select" || !r.Op.Default || r.Ret == 0 || r.Sel != -1 {
			continue
		}
		for k, cs := range r.Op.Cases {
			if cs.Ch < 0 {
				continue
			}
			spec := sc.Chans[cs.Ch]
			list := evs[cs.Ch]
			closeInvokedBeforeEnd, closedBeforeStart := false, false
			for _, e := range list {
				if e.kind == "close" {
					if e.r.Inv < r.Ret {
						closeInvokedBeforeEnd = true
					}
					if !e.pending && e.r.Ret < r.Inv {
						closedBeforeStart = true
					}
				}
			}
			if !cs.Send {
				if closedBeforeStart {
					return "default-while-ready", fmt.Sprintf("t%d op%d: %s took default although case %d receives from ch%d, which was closed before the select began", r.Task, r.Idx, r.Op, k, cs.Ch)
				}
				if spec.Cap == 0 {
					continue
				}
				// values certainly buffered during the whole call
				sure := 0
				for _, e := range list {
					if e.r == r {
						continue
					}
					if e.kind == "send" && !e.pending && e.r.OK && e.r.Ret < r.Inv {
						sure++
					}
					if e.kind == "recv" && e.r.Inv < r.Ret && (e.pending || e.r.OK) {
						sure--
					}
				}
				if sure > 0 {
					return "default-while-ready", fmt.Sprintf("t%d op%d: %s took default although ch%d held at least %d buffered value(s) during the whole call", r.Task, r.Idx, r.Op, cs.Ch, sure)
				}
			} else {
				if spec.Cap == 0 || closeInvokedBeforeEnd {
					continue
				}
				most := 0
				for _, e := range list {
					if e.r == r {
						continue
					}
					if e.kind == "send" && e.r.Inv < r.Ret && (e.pending || e.r.OK) {
						most++
					}
					if e.kind == "recv" && !e.pending && e.r.OK && e.r.Ret < r.Inv {
						most--
					}
				}
				if most < spec.Cap {
					return "default-while-ready", fmt.Sprintf("t%d op%d: %s took default although ch%d (cap %d) held at most %d value(s) during the whole call", r.Task, r.Idx, r.Op, cs.Ch, spec.Cap, most)
				}
			}
		}
	}
	return "", ""
}
