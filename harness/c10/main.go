// C10: channels and select under every schedule.  Runs the real z_chan.go
// (lifted from the working tree) on the simulated pthread layer.
package main

import (
	"encoding/binary"
	"encoding/json"
	"fmt"
	"sort"
	"unsafe"

	"verif/driver"
	"verif/lifted/chanrt"
	"verif/sim"
)

type ChanSpec struct {
	Cap  int `json:"cap"`
	Elem int `json:"elem"` // element size in bytes: 0, 1, 8, 24
}

type Case struct {
	Ch   int  `json:"ch"` // -1 = nil channel
	Send bool `json:"send,omitempty"`
	Val  int  `json:"val,omitempty"`
}

type Op struct {
	K       string `json:"k"` // send recv close len cap select
	Ch      int    `json:"ch"`
	Val     int    `json:"val,omitempty"`
	Cases   []Case `json:"cases,omitempty"`
	Default bool   `json:"default,omitempty"`
}

type Scenario struct {
	Chans []ChanSpec `json:"chans"`
	Perm  []int      `json:"perm"` // address order of the channel objects
	Tasks [][]Op     `json:"tasks"`
	Cfg   sim.Config `json:"cfg"`
}

type prop struct{}

func (prop) ID() string { return "C10" }

func (prop) Decode(b []byte) (driver.Scenario, error) {
	var sc Scenario
	err := json.Unmarshal(b, &sc)
	return &sc, err
}

func genCfg(rng *sim.Rng) sim.Config {
	cfg := sim.Config{MaxSteps: 3000, LiveSteps: 3000}
	switch rng.Intn(5) {
	case 0:
		cfg.Strategy = "uniform"
	case 1:
		cfg.Strategy = "pct"
		cfg.PCTDepth = rng.Range(1, 4)
		cfg.PCTLen = rng.Range(20, 200)
	case 2:
		cfg.Strategy = "runtoblock"
		cfg.PreemptP = []float64{0.02, 0.1, 0.3}[rng.Intn(3)]
	case 3:
		cfg.Strategy = "starve"
	case 4:
		cfg.Strategy = "uniform"
	}
	switch rng.Intn(3) {
	case 1:
		cfg.SpuriousRate = 0.05
		cfg.SpuriousMax = 4
	case 2:
		cfg.SpuriousRate = 0.25
		cfg.SpuriousMax = 16
	}
	return cfg
}

func (prop) Generate(rng *sim.Rng, tier string, runIndex int) driver.Scenario {
	sc := &Scenario{}
	maxTasks, maxOps, maxCap := 4, 4, 2
	if tier == "thorough" && rng.Intn(3) == 0 {
		maxTasks, maxOps, maxCap = 8, 8, 4
	}
	nch := rng.Range(1, 3)
	onlyUnbuf := rng.Intn(4) == 0
	onlyBuf := !onlyUnbuf && rng.Intn(4) == 0
	for i := 0; i < nch; i++ {
		c := ChanSpec{Elem: []int{8, 8, 8, 1, 24, 0}[rng.Intn(6)]}
		switch {
		case onlyUnbuf:
			c.Cap = 0
		case onlyBuf:
			c.Cap = rng.Range(1, maxCap)
		default:
			c.Cap = []int{0, 0, 1, 2, maxCap}[rng.Intn(5)]
		}
		sc.Chans = append(sc.Chans, c)
	}
	sc.Perm = make([]int, nch)
	for i := range sc.Perm {
		sc.Perm[i] = i
	}
	for i := nch - 1; i > 0; i-- {
		j := rng.Intn(i + 1)
		sc.Perm[i], sc.Perm[j] = sc.Perm[j], sc.Perm[i]
	}
	// swarm: which op kinds are enabled in this run
	wSelect := []int{0, 2, 5}[rng.Intn(3)]
	wClose := []int{0, 1, 2}[rng.Intn(3)]
	wLen := []int{0, 0, 1}[rng.Intn(3)]
	wDefault := []int{0, 1, 2}[rng.Intn(3)]
	nt := rng.Range(2, maxTasks)
	if maxTasks > 4 {
		nt = rng.Range(3, maxTasks)
	}
	val := 0
	closed := map[int]bool{}
	for t := 0; t < nt; t++ {
		n := rng.Range(1, maxOps)
		var ops []Op
		for i := 0; i < n; i++ {
			ch := rng.Intn(nch)
			tot := 4 + 4 + wSelect + wClose + wLen + wDefault
			r := rng.Intn(tot)
			switch {
			case r < 4:
				val++
				ops = append(ops, Op{K: "send", Ch: ch, Val: val})
			case r < 8:
				ops = append(ops, Op{K: "recv", Ch: ch})
			case r < 8+wSelect+wDefault:
				op := Op{K: "select", Default: r >= 8+wSelect}
				nc := rng.Range(1, 4)
				if rng.Intn(3) == 0 {
					nc = 2
				}
				for k := 0; k < nc; k++ {
					c := Case{Ch: rng.Intn(nch), Send: rng.Bool()}
					if rng.Intn(12) == 0 {
						c.Ch = -1
					}
					if c.Send {
						val++
						c.Val = val
					}
					op.Cases = append(op.Cases, c)
				}
				ops = append(ops, op)
			case r < 8+wSelect+wDefault+wClose:
				if closed[ch] {
					ops = append(ops, Op{K: "recv", Ch: ch})
				} else {
					closed[ch] = true
					ops = append(ops, Op{K: "close", Ch: ch})
				}
			default:
				if rng.Bool() {
					ops = append(ops, Op{K: "len", Ch: ch})
				} else {
					ops = append(ops, Op{K: "cap", Ch: ch})
				}
			}
		}
		if rng.Intn(40) == 0 {
			// the task ends in an operation on a nil channel: it blocks forever
			ops = append(ops, Op{K: []string{"send", "recv"}[rng.Intn(2)], Ch: -1, Val: 9999})
		}
		sc.Tasks = append(sc.Tasks, ops)
	}
	sc.Cfg = genCfg(rng)
	if sc.Cfg.Strategy == "starve" {
		sc.Cfg.StarveTask = rng.Intn(nt)
	}
	return sc
}

// ---- execution -------------------------------------------------------------

type opRec struct {
	Task, Idx int
	Op        *Op
	Inv, Ret  uint64
	OK        bool // send: delivered (false: channel closed, Go would panic); recv: ok
	Val       int  // received value (0 = zero value, -1 = torn)
	Sel       int  // select: index of the committed case, -1 = default
	N         int  // len/cap result
	Stray     string
	// Parked: the tasks that were asleep on a condition variable or semaphore
	// when this operation was invoked (layer A only; nil otherwise)
	Parked map[int]bool
	// Announced: unbuffered channels whose hand-off slot announced a waiting receiver at that moment
	Announced map[int]bool
}

const magic = 0x5a5a5a5a5a5a5a5a

func encode(val, es int) unsafe.Pointer {
	b := make([]byte, es+1)
	switch es {
	case 1:
		b[0] = byte(val)
	case 8:
		binary.LittleEndian.PutUint64(b, uint64(val))
	case 24:
		binary.LittleEndian.PutUint64(b, uint64(val))
		binary.LittleEndian.PutUint64(b[8:], uint64(val)^magic)
		binary.LittleEndian.PutUint64(b[16:], ^uint64(val))
	}
	return unsafe.Pointer(&b[0])
}

func decode(p unsafe.Pointer, es int) int {
	b := unsafe.Slice((*byte)(p), es+1)
	switch es {
	case 0:
		return 0
	case 1:
		return int(b[0])
	case 8:
		return int(binary.LittleEndian.Uint64(b))
	case 24:
		v := binary.LittleEndian.Uint64(b)
		w := binary.LittleEndian.Uint64(b[8:])
		x := binary.LittleEndian.Uint64(b[16:])
		if v == 0 && w == 0 && x == 0 {
			return 0
		}
		if w != v^magic || x != ^v {
			return -1
		}
		return int(v)
	}
	return -1
}

func (o *Op) String() string {
	switch o.K {
	case "send":
		return fmt.Sprintf("send(ch%d,v%d)", o.Ch, o.Val)
	case "select":
		s := "select{"
		for i, c := range o.Cases {
			if i > 0 {
				s += "; "
			}
			name := fmt.Sprintf("ch%d", c.Ch)
			if c.Ch < 0 {
				name = "nil"
			}
			if c.Send {
				s += fmt.Sprintf("%s<-v%d", name, c.Val)
			} else {
				s += "<-" + name
			}
		}
		if o.Default {
			s += "; default"
		}
		return s + "}"
	}
	return fmt.Sprintf("%s(ch%d)", o.K, o.Ch)
}

func (prop) Run(scx driver.Scenario, ch *sim.Choices, keep bool) *driver.Result {
	sc := scx.(*Scenario)
	s := sim.New(sc.Cfg, ch)
	s.KeepTrace = keep
	sim.S = s // channel construction initialises simulated mutexes
	// channel objects at seed-chosen positions of one array: selectSendFirst
	// breaks ties by address, so address order is a replayable input here
	arr := make([]chanrt.Chan, len(sc.Chans))
	chans := make([]*chanrt.Chan, len(sc.Chans))
	for i, c := range sc.Chans {
		arr[sc.Perm[i]] = *chanrt.NewChan(c.Elem, c.Cap)
		chans[i] = &arr[sc.Perm[i]]
	}
	var recs []*opRec
	for t, ops := range sc.Tasks {
		t, ops := t, ops
		trecs := make([]*opRec, len(ops))
		for i := range ops {
			trecs[i] = &opRec{Task: t, Idx: i, Op: &ops[i], Sel: -2}
			recs = append(recs, trecs[i])
		}
		s.Spawn(fmt.Sprintf("g%d", t), func() {
			for i := range ops {
				op := &ops[i]
				r := trecs[i]
				r.Inv = s.Stamp()
				if op.K == "select" && op.Default {
					r.Parked = map[int]bool{}
					r.Announced = map[int]bool{}
					for ci := range chans {
						if chanrt.ReceiverAnnounced(chans[ci]) {
							r.Announced[ci] = true
						}
					}
					for _, ot := range s.Tasks {
						if st := ot.State(); st == sim.BlockedCond || st == sim.BlockedOther {
							r.Parked[ot.ID] = true
						}
					}
				}
				s.Logf("  t%d op%d invoke %s [#%d]", t, i, op, r.Inv)
				stop := false
				switch op.K {
				case "send":
					if op.Ch < 0 {
						chanrt.ChanSend(nil, encode(op.Val, 8), 8) // a nil channel: blocks forever
						r.Stray = "a send on a nil channel returned"
						break
					}
					es := sc.Chans[op.Ch].Elem
					r.OK = chanrt.ChanSend(chans[op.Ch], encode(op.Val, es), es)
					stop = !r.OK
				case "recv":
					if op.Ch < 0 {
						chanrt.ChanRecv(nil, encode(0, 8), 8) // a nil channel: blocks forever
						r.Stray = "a receive from a nil channel returned"
						break
					}
					es := sc.Chans[op.Ch].Elem
					buf := encode(0, es)
					r.OK = chanrt.ChanRecv(chans[op.Ch], buf, es)
					r.Val = decode(buf, es)
				case "close":
					chanrt.ChanClose(chans[op.Ch])
				case "len":
					r.N = chanrt.ChanLen(chans[op.Ch])
				case "cap":
					r.N = chanrt.ChanCap(chans[op.Ch])
				case "select":
					cops := make([]chanrt.ChanOp, len(op.Cases))
					bufs := make([]unsafe.Pointer, len(op.Cases))
					for k, c := range op.Cases {
						es := 8
						if c.Ch >= 0 {
							es = sc.Chans[c.Ch].Elem
							cops[k].C = chans[c.Ch]
						}
						if c.Send {
							bufs[k] = encode(c.Val, es)
						} else {
							bufs[k] = encode(0, es)
						}
						cops[k].Val = bufs[k]
						cops[k].Size = int32(es)
						cops[k].Send = c.Send
					}
					var isel int
					var recvOK, tryOK bool
					if op.Default {
						isel, recvOK, tryOK = chanrt.TrySelect(cops...)
						if !tryOK {
							isel = -1
						}
					} else {
						isel, recvOK = chanrt.Select(cops...)
					}
					r.Sel = isel
					if isel >= 0 && isel < len(op.Cases) {
						c := op.Cases[isel]
						if c.Send {
							r.OK = true
						} else {
							r.OK = recvOK
							if c.Ch >= 0 {
								r.Val = decode(bufs[isel], sc.Chans[c.Ch].Elem)
							}
						}
					}
					for k, c := range op.Cases {
						if k != isel && !c.Send && c.Ch >= 0 {
							if v := decode(bufs[k], sc.Chans[c.Ch].Elem); v != 0 {
								r.Stray = fmt.Sprintf("case %d (not selected) received v%d", k, v)
							}
						}
					}
				}
				r.Ret = s.Stamp()
				s.Logf("  t%d op%d return %s [#%d]", t, i, r.result(), r.Ret)
				if stop {
					s.Logf("  t%d stops: Go would panic here (send on closed channel)", t)
					return
				}
			}
		})
	}
	s.Run()
	res := &driver.Result{TraceHash: s.TraceHash, Steps: s.Step, SimTime: s.SimTimeEnd, Choices: ch.Rec, Diverged: ch.Diverged,
		Faults: map[string]int{"spurious-wakeup": s.Spurious}, Probes: s.Probes, Counters: map[string]int{}}
	res.Nontrivial = s.Preempts > 0 && sharesChannel(sc)
	res.Probes["preemptions"] += s.Preempts
	if s.Cfg.Strategy != "" {
		res.Probes["strategy-"+s.Cfg.Strategy]++
	}
	cls, det := check(sc, s, recs, res)
	res.Violation, res.Detail = cls, det
	res.StateHash = endState(sc, s, recs)
	if keep {
		res.Log = s.LogLines
		for _, t := range s.EndBlocked {
			res.Log = append(res.Log, fmt.Sprintf("end: t%d blocked (%s obj%d)", t.ID, sim.KindName(t.BlockKind), t.BlockObj))
		}
		res.Log = append(res.Log, fmt.Sprintf("end: %s after %d steps; outcome: %s %s", []string{"quiescent", "step cap (no quiescence within the liveness bound)", "aborted"}[s.End], s.Step, cls, det))
	}
	return res
}

func (r *opRec) result() string {
	switch r.Op.K {
	case "send":
		if r.OK {
			return "sent"
		}
		return "closed (Go would panic)"
	case "recv":
		return fmt.Sprintf("(v%d, ok=%v)", r.Val, r.OK)
	case "len", "cap":
		return fmt.Sprint(r.N)
	case "select":
		if r.Sel < 0 {
			return "default"
		}
		if r.Sel >= len(r.Op.Cases) {
			return fmt.Sprintf("case %d (out of range)", r.Sel)
		}
		if r.Op.Cases[r.Sel].Send {
			return fmt.Sprintf("case %d sent", r.Sel)
		}
		return fmt.Sprintf("case %d received (v%d, ok=%v)", r.Sel, r.Val, r.OK)
	}
	return "done"
}

func sharesChannel(sc *Scenario) bool {
	users := map[int]map[int]bool{}
	for t, ops := range sc.Tasks {
		for _, op := range ops {
			add := func(c int) {
				if c < 0 {
					return
				}
				if users[c] == nil {
					users[c] = map[int]bool{}
				}
				users[c][t] = true
			}
			if op.K == "select" {
				for _, c := range op.Cases {
					add(c.Ch)
				}
			} else {
				add(op.Ch)
			}
		}
	}
	for c := range sc.Chans {
		if len(users[c]) >= 2 {
			return true
		}
	}
	return false
}

func endState(sc *Scenario, s *sim.Sim, recs []*opRec) uint64 {
	h := uint64(1469598103934665603)
	mix := func(v uint64) { h = (h ^ v) * 1099511628211 }
	for _, r := range recs {
		mix(uint64(r.Task)<<8 | uint64(r.Idx))
		switch {
		case r.Inv == 0:
			mix(0)
		case r.Ret == 0:
			mix(1)
		default:
			mix(2)
			mix(uint64(r.Val + 2))
			mix(uint64(r.Sel + 3))
			if r.OK {
				mix(7)
			}
		}
	}
	return h
}

// ---- shrinking ---------------------------------------------------------------

func clone(sc *Scenario) *Scenario {
	b, _ := json.Marshal(sc)
	var c Scenario
	json.Unmarshal(b, &c)
	return &c
}

func (prop) Shrink(scx driver.Scenario) []driver.Scenario {
	sc := scx.(*Scenario)
	var out []driver.Scenario
	// drop a task
	if len(sc.Tasks) > 1 {
		for t := range sc.Tasks {
			c := clone(sc)
			c.Tasks = append(c.Tasks[:t], c.Tasks[t+1:]...)
			if c.Cfg.StarveTask >= len(c.Tasks) {
				c.Cfg.StarveTask = 0
			}
			out = append(out, c)
		}
	}
	// drop an op
	for t := range sc.Tasks {
		for i := len(sc.Tasks[t]) - 1; i >= 0; i-- {
			if len(sc.Tasks[t]) == 1 {
				continue
			}
			c := clone(sc)
			c.Tasks[t] = append(c.Tasks[t][:i], c.Tasks[t][i+1:]...)
			out = append(out, c)
		}
	}
	// simplify a select
	for t := range sc.Tasks {
		for i, op := range sc.Tasks[t] {
			if op.K != "select" {
				continue
			}
			if len(op.Cases) > 1 {
				for k := range op.Cases {
					c := clone(sc)
					o := &c.Tasks[t][i]
					o.Cases = append(o.Cases[:k], o.Cases[k+1:]...)
					out = append(out, c)
				}
			}
			if len(op.Cases) == 1 && !op.Default && op.Cases[0].Ch >= 0 {
				c := clone(sc)
				cs := op.Cases[0]
				if cs.Send {
					c.Tasks[t][i] = Op{K: "send", Ch: cs.Ch, Val: cs.Val}
				} else {
					c.Tasks[t][i] = Op{K: "recv", Ch: cs.Ch}
				}
				out = append(out, c)
			}
			if op.Default {
				c := clone(sc)
				c.Tasks[t][i].Default = false
				out = append(out, c)
			}
		}
	}
	// channels: smaller capacity, plain element size
	for i, cs := range sc.Chans {
		if cs.Cap > 0 {
			c := clone(sc)
			c.Chans[i].Cap--
			out = append(out, c)
		}
		if cs.Elem != 8 {
			c := clone(sc)
			c.Chans[i].Elem = 8
			out = append(out, c)
		}
	}
	// identity address order
	ident := true
	for i, p := range sc.Perm {
		if p != i {
			ident = false
		}
	}
	if !ident {
		c := clone(sc)
		for i := range c.Perm {
			c.Perm[i] = i
		}
		out = append(out, c)
	}
	// faults off
	if sc.Cfg.SpuriousRate > 0 {
		c := clone(sc)
		c.Cfg.SpuriousRate = 0
		c.Cfg.SpuriousMax = 0
		out = append(out, c)
	}
	return out
}

// ---- description / known findings -------------------------------------------------

func (prop) Describe() driver.Description {
	return driver.Description{
		Rule: "a case is one simulated run of a generated scenario (2-8 tasks, each 1-8 channel/select operations on 1-3 channels of capacity 0-4, element size 0/1/8/24) under one seeded schedule with one fault configuration; " +
			"it is non-trivial when at least two tasks operate on a common channel and at least one preemption (a switch away from a still-runnable task at a lock/wait/signal point) happened; " +
			"distinct = distinct hash of the run's sequence of (task, sim-point kind, object) events",
		Components: []driver.Component{
			{Name: "runtime/internal/runtime/z_chan.go", Real: true, What: "lifted verbatim from the working tree (imports retargeted), compiled by the standard Go compiler"},
			{Name: "pthread mutex/cond (clite/pthread/sync)", Real: false, What: "simulated: sim/psync; scheduler owns every lock order, signal target and spurious wake-up"},
			{Name: "clite Memcpy/Advance, runtime AllocU", Real: false, What: "plain Go equivalents"},
			{Name: "compiler lowering of chan ops (ssa/datastruct.go)", Real: false, What: "not run in this layer; the harness calls the runtime entry points the way the lowering does"},
		},
		Assumptions: []string{
			"the lifted source compiled by the standard Go compiler behaves like the same source compiled by llgo",
			"interleavings are explored at lock/wait/signal/broadcast granularity; plain memory accesses between sim points are atomic",
			"a clean batch is evidence over the sampled schedules, not over all of them",
		},
		LiftInfo:   chanrt.LiftInfo,
		FaultKinds: []string{"spurious-wakeup"},
	}
}

var _ = sort.Ints

func main() { driver.Main(prop{}) }
