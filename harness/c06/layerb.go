package main

// Layer B driver: histories for the compiled map interpreter (progb.go), the
// seam for the runtime's only nondeterminism source (C rand: hash key material
// at start-up and the start bucket/offset of every range loop), and the oracle
// over the printed event lines.
//
// The generator stays out of the territory of the listed findings C06-K1..K3
// (their structural predicates need bucket-level information a compiled
// program does not print): clear(m) only when no range loop is live, and in
// histories that use keys equal to nothing (NaN) a range loop runs to its end
// without the map being modified underneath it.

import (
	"bytes"
	"crypto/sha256"
	"encoding/json"
	"fmt"
	"os"
	"os/exec"
	"path/filepath"
	"sort"
	"strconv"
	"strings"
	"sync"
	"time"

	"verif/driver"
	"verif/sim"
)

var (
	bLlgo    = os.Getenv("VERIF_B_LLGO")
	bShim    = os.Getenv("VERIF_B_SHIM")
	bRandLib = os.Getenv("VERIF_B_RANDLIB")
	bTmp     = os.Getenv("VERIF_B_TMP")
	bGo123   = os.Getenv("VERIF_B_GO123")
	bRepo    = os.Getenv("VERIF_B_REPO")
	bCache   = os.Getenv("VERIF_B_CACHE")
)

type ScenarioB struct {
	Combo    int    `json:"combo"`
	KeyT     string `json:"key_type"`
	ElemT    string `json:"elem_type"`
	Hint     int    `json:"hint"`
	Pool     int    `json:"pool"`
	NaNMode  bool   `json:"nan_mode"` // keys equal to nothing are in use: range loops run over an unchanging map
	RandSeed uint64 `json:"rand_seed"`
	Ops      []Op   `json:"ops"`
}

type bReplay struct {
	Layer      string     `json:"layer"`
	Scenario   *ScenarioB `json:"scenario"`
	Class      string     `json:"class"`
	Detail     string     `json:"detail"`
	Output     []string   `json:"output"`
	ProgramSHA string     `json:"program_sha256"`
}

// classB: two pool keys are == iff they have the same class (the smallest
// member's index); -1 = equal to nothing.  Mirrors mk_* in progb.go.
func classB(kt string, ki int) int {
	switch kt {
	case "int8":
		return ki % 256
	case "float64", "float32", "complex128":
		if ki == 1 {
			return 0
		}
		if ki == 2 || ki == 3 {
			return -1
		}
	case "arr1f64":
		if ki == 1 {
			return 0
		}
		if ki == 2 || ki == 3 {
			return -1
		}
	case "structf", "arr2f32":
		switch ki % 6 {
		case 1:
			return ki - 1
		case 2, 3:
			return -1
		}
	case "iface":
		if ki == 2 {
			return -1
		}
		if ki == 12 {
			return 7
		}
	case "ptr", "chanint":
		return ki % 4096
	case "bool":
		return ki % 2

	}
	return ki
}

func hasNaNKeys(kt string) bool {
	switch kt {
	case "float64", "float32", "complex128", "structf", "iface", "arr1f64", "arr2f32":
		return true
	}
	return false
}

func genMapB(rng *sim.Rng, tier string) *ScenarioB {
	sc := &ScenarioB{Combo: rng.Intn(len(combosB))}
	kt := keyKindsB[combosB[sc.Combo].key].name
	sc.KeyT, sc.ElemT = kt, elemKindsB[combosB[sc.Combo].elem].name
	sc.Hint = []int{0, 0, 0, 5, 9, 100, -1}[rng.Intn(7)]
	sc.Pool = []int{3, 8, 20, 70, 300, 1200}[rng.Intn(6)]
	sc.RandSeed = rng.Uint64() | 1
	sc.NaNMode = hasNaNKeys(kt) && rng.Intn(3) == 0
	n := rng.Range(5, 120)
	switch rng.Intn(6) {
	case 0:
		n = rng.Range(100, 1200)
	case 1:
		if tier == "thorough" {
			n = rng.Range(1000, 6000)
		}
	}
	if sc.Hint < 0 {
		n = rng.Range(1, 12)
	}
	key := func() int {
		k := rng.Intn(sc.Pool)
		if rng.Intn(3) == 0 {
			k = rng.Intn(1 + sc.Pool/4)
		}
		if !sc.NaNMode {
			for classB(kt, k) == -1 {
				k++ // the next key of the pool that equals itself
			}
		}
		return k
	}
	wSet, wDel, wGet, wIter := 6, 2, 3, 2
	wClear := 0
	if rng.Intn(3) == 0 {
		wClear = 1
	}
	var stack []int
	nextIt := 0
	for len(sc.Ops) < n {
		if rng.Intn(40) == 0 {
			switch rng.Intn(3) {
			case 0:
				wSet, wDel = 8, 1
			case 1:
				wSet, wDel = 2, 7
			case 2:
				wSet, wDel = 4, 4
			}
			wIter = rng.Intn(5)
		}
		tot := wSet + wDel + wGet + wIter + wClear + 1
		r := rng.Intn(tot)
		switch {
		case r < wSet:
			switch c := rng.Intn(12); {
			case c == 0:
				// a constant zero value written over whatever the key holds
				k := key()
				for classB(kt, k) == -1 {
					k++
				}
				sc.Ops = append(sc.Ops, Op{K: "setzero", Key: k})
			case c == 1 && sc.ElemT == "int64":
				k := key()
				for classB(kt, k) == -1 {
					k++ // m[NaN] += x would add an entry that cannot be told from its twins
				}
				sc.Ops = append(sc.Ops, Op{K: "add", Key: k})
			default:
				sc.Ops = append(sc.Ops, Op{K: "set", Key: key()})
			}
		case r < wSet+wDel:
			sc.Ops = append(sc.Ops, Op{K: "del", Key: key()})
		case r < wSet+wDel+wGet:
			sc.Ops = append(sc.Ops, Op{K: []string{"get", "get", "get1", "len"}[rng.Intn(4)], Key: key()})
		case r < wSet+wDel+wGet+wIter:
			if sc.NaNMode {
				sc.Ops = append(sc.Ops, Op{K: "istart", It: nextIt}, Op{K: "idrain", It: nextIt})
				nextIt++
				break
			}
			if len(stack) < 3 && (len(stack) == 0 || rng.Intn(3) == 0) {
				sc.Ops = append(sc.Ops, Op{K: "istart", It: nextIt})
				stack = append(stack, nextIt)
				nextIt++
			} else {
				top := stack[len(stack)-1]
				switch c := rng.Intn(25); {
				case c == 0:
					sc.Ops = append(sc.Ops, Op{K: "idrop", It: top})
					stack = stack[:len(stack)-1]
				case c == 1:
					sc.Ops = append(sc.Ops, Op{K: "idrain", It: top})
					stack = stack[:len(stack)-1]
				default:
					sc.Ops = append(sc.Ops, Op{K: "inext", It: top})
				}
			}
		case r < wSet+wDel+wGet+wIter+wClear:
			if len(stack) == 0 && rng.Intn(6) == 0 {
				sc.Ops = append(sc.Ops, Op{K: "clear"})
			}
		default:
			if (kt == "iface" || kt == "ptr" || kt == "ifacem") && rng.Intn(3) == 0 {
				sc.Ops = append(sc.Ops, Op{K: "poke", Key: rng.Intn(sc.Pool)})
			} else if kt == "iface" && rng.Intn(3) == 0 {
				sc.Ops = append(sc.Ops, Op{K: []string{"setbad", "getbad", "delbad", "get1bad"}[rng.Intn(4)], Key: rng.Intn(6)})
			} else {
				sc.Ops = append(sc.Ops, Op{K: "len"})
			}
		}
	}
	for len(stack) > 0 {
		sc.Ops = append(sc.Ops, Op{K: "idrain", It: stack[len(stack)-1]})
		stack = stack[:len(stack)-1]
	}
	if kt == "iface" {
		// every kind of operation with an unhashable dynamic key, in every history of
		// this key kind (they leave the map as it is)
		for _, k := range []string{"setbad", "getbad", "delbad", "get1bad"} {
			sc.Ops = append(sc.Ops, Op{K: k, Key: rng.Intn(6)})
		}
	}
	sc.Ops = append(sc.Ops, Op{K: "len"})
	return sc
}

// validB: the history stays inside what Layer B judges (see the file comment).
func validB(sc *ScenarioB) bool {
	var stack []int
	for _, op := range sc.Ops {
		top := -1
		if len(stack) > 0 {
			top = stack[len(stack)-1]
		}
		switch op.K {
		case "istart":
			stack = append(stack, op.It)
		case "idrop", "idrain":
			if op.It == top {
				stack = stack[:len(stack)-1]
			}
		case "clear":
			if len(stack) > 0 {
				return false
			}
		case "set", "setzero", "add", "del", "setbad", "delbad":
			if sc.NaNMode && len(stack) > 0 {
				return false
			}
		}
	}
	return true
}

var opCodeB = map[string]int{"poke": 17, "setzero": 14, "get1bad": 15, "add": 16, "set": 1, "get": 2, "get1": 3, "del": 4, "clear": 5, "len": 6, "istart": 7, "inext": 8, "idrop": 9, "idrain": 10, "setbad": 11, "getbad": 12, "delbad": 13}

func scriptB(sc *ScenarioB) []byte {
	var sb bytes.Buffer
	// the pool the interpreter searches is a little larger than the generator's:
	// keys that equal nothing are replaced by their successors
	fmt.Fprintf(&sb, "%d %d %d\n", sc.Combo, sc.Hint, sc.Pool+8)
	for _, op := range sc.Ops {
		a := op.Key
		if strings.HasPrefix(op.K, "i") {
			a = op.It
		}
		fmt.Fprintf(&sb, "%d %d\n", opCodeB[op.K], a)
	}
	sb.WriteString("0 0\n")
	return sb.Bytes()
}

type bRun struct {
	out  string
	end  string // exit crash timeout
	code int
}

func runMapB(bin string, sc *ScenarioB) bRun {
	// address-space randomisation off: pointer values (hashed map keys, channel
	// addresses that order a select's cases) are then the same in every process
	cmd := exec.Command("/usr/bin/setarch", "x86_64", "-R", bin)
	if _, err := os.Stat("/usr/bin/setarch"); err != nil {
		cmd = exec.Command(bin)
	}
	cmd.Env = []string{"LD_PRELOAD=" + bRandLib, "VERIF_RAND_SEED=" + strconv.FormatUint(sc.RandSeed, 10)}
	cmd.Stdin = bytes.NewReader(scriptB(sc))
	var buf bytes.Buffer
	cmd.Stdout, cmd.Stderr = &buf, &buf
	if err := cmd.Start(); err != nil {
		return bRun{end: "crash", out: err.Error()}
	}
	done := make(chan error, 1)
	go func() { done <- cmd.Wait() }()
	select {
	case err := <-done:
		r := bRun{out: buf.String(), end: "exit"}
		if ee, ok := err.(*exec.ExitError); ok {
			r.code = ee.ExitCode()
			r.end = "crash"
		} else if err != nil {
			r.end = "crash"
		}
		return r
	case <-time.After(60 * time.Second):
		cmd.Process.Kill()
		<-done
		return bRun{out: buf.String(), end: "timeout"}
	}
}

type iterB struct {
	id       int
	keyOnly  bool
	snapshot map[string]bool
	deleted  map[string]bool
	yielded  map[string]bool
	held     map[string]map[int]bool
	nanSeen  int
	yields   int
}

// judgeMapB replays the printed events against the finite-map model.
func judgeMapB(sc *ScenarioB, r bRun) (string, string) {
	lines := strings.Split(strings.TrimSpace(r.out), "\n")
	li := 0
	kt, et := sc.KeyT, sc.ElemT
	type ent struct{ val int }
	model := map[int]*ent{}
	var nans []int
	nilMap := sc.Hint < 0
	nextVal := 0
	var stack []*iterB
	crashed := func(i int, what string) (string, string) {
		tail := lines
		if len(tail) > 6 {
			tail = tail[len(tail)-6:]
		}
		if r.end == "timeout" {
			return "hang", fmt.Sprintf("op %d (%s): the compiled program did not finish within 60 s; last output: %q", i, what, tail)
		}
		return "compiled-program-failed", fmt.Sprintf("op %d (%s): the compiled program stopped or printed something else (%s, exit code %d); last output: %q", i, what, r.end, r.code, tail)
	}
	// next returns the fields of the next line if it is an event of kind k for op i
	next := func(k string, i int) []string {
		if li >= len(lines) {
			return nil
		}
		f := strings.Fields(lines[li])
		if len(f) < 2 || f[0] != k || f[1] != strconv.Itoa(i) {
			return nil
		}
		li++
		return f
	}
	peek := func() string {
		if li >= len(lines) {
			return ""
		}
		f := strings.Fields(lines[li])
		if len(f) == 0 {
			return ""
		}
		return f[0]
	}
	eid := func(class, val int) string {
		if class == -1 {
			return "nan:" + strconv.Itoa(val)
		}
		return strconv.Itoa(class)
	}
	noteDelete := func(id string) {
		for _, it := range stack {
			it.deleted[id] = true
			it.yielded[id] = false
		}
	}
	noteValue := func(id string, v int) {
		for _, it := range stack {
			if it.held[id] == nil {
				it.held[id] = map[int]bool{}
			}
			it.held[id][v] = true
		}
	}
	// one yield or the end of loop `it`; returns (class, detail, ended)
	step := func(it *iterB, i int) (string, string, bool) {
		anon := it.keyOnly || et == "empty" // entries whose key equals nothing cannot be told apart: counted
		if f := next("E", i); f != nil {
			var missed []string
			for id := range it.snapshot {
				if !it.deleted[id] && !it.yielded[id] && !(anon && strings.HasPrefix(id, "nan:")) {
					missed = append(missed, id)
				}
			}
			sort.Strings(missed)
			if len(missed) > 0 {
				return "range-missed-entry", fmt.Sprintf("op %d: range loop %d ended without yielding %v although present during the whole loop", i, it.id, missed), true
			}
			if anon && sc.NaNMode {
				want := 0
				for id := range it.snapshot {
					if strings.HasPrefix(id, "nan:") {
						want++
					}
				}
				if it.nanSeen != want {
					return "range-missed-entry", fmt.Sprintf("op %d: range loop %d yielded %d entries whose key equals nothing, %d are in the map", i, it.id, it.nanSeen, want), true
				}
			}
			return "", "", true
		}
		f := next("Y", i)
		if f == nil || len(f) < 5 {
			c, d := crashed(i, "range step")
			return c, d, true
		}
		ki, _ := strconv.Atoi(f[3])
		v, _ := strconv.Atoi(f[4])
		it.yields++
		if it.yields > 200000 {
			return "hang", fmt.Sprintf("op %d: range loop %d yielded more than 200000 entries", i, it.id), true
		}
		if ki == -2 {
			return "range-garbage-key", fmt.Sprintf("op %d: range loop %d yielded a key that equals no key of the pool", i, it.id), true
		}
		var id string
		if ki == -1 {
			if !sc.NaNMode {
				return "range-garbage-key", fmt.Sprintf("op %d: range loop %d yielded a key that is not equal to itself; no such key was stored", i, it.id), true
			}
			it.nanSeen++
			if anon {
				if it.nanSeen > len(nans) {
					return "range-entry-twice", fmt.Sprintf("op %d: range loop %d yielded %d entries whose key equals nothing, %d are in the map", i, it.id, it.nanSeen, len(nans)), true
				}
				return "", "", false
			}
			found := false
			for _, nv := range nans {
				found = found || nv == v
			}
			if !found {
				return "range-deleted-entry", fmt.Sprintf("op %d: range loop %d yielded a NaN-keyed entry with value %d that is not in the map", i, it.id, v), true
			}
			id = eid(-1, v)
		} else {
			class := classB(kt, ki)
			e := model[class]
			if e == nil {
				return "range-deleted-entry", fmt.Sprintf("op %d: range loop %d yielded key #%d which is not in the map", i, it.id, ki), true
			}
			id = eid(class, 0)
			if !it.keyOnly && et != "empty" && !it.held[id][v] {
				return "range-wrong-value", fmt.Sprintf("op %d: range loop %d yielded key #%d with value %d, which the key never held during the loop (current %d)", i, it.id, ki, v, e.val), true
			}
		}
		if it.yielded[id] {
			return "range-entry-twice", fmt.Sprintf("op %d: range loop %d yielded entry %s twice", i, it.id, id), true
		}
		it.yielded[id] = true
		return "", "", false
	}
	pop := func() { stack = stack[:len(stack)-1] }
	for idx, op := range sc.Ops {
		i := idx + 1
		switch op.K {
		case "set", "setzero", "add":
			class := classB(kt, op.Key)
			v := 0
			switch op.K {
			case "set":
				nextVal++
				v = nextVal
			case "add":
				if e := model[class]; class >= 0 && e != nil {
					v = e.val
				}
				v += 1000000
			}
			if f := next("P", i); f != nil {
				msg := strings.Join(f[2:], " ")
				if nilMap && strings.Contains(msg, "nil map") {
					continue
				}
				return "unexpected-panic", fmt.Sprintf("op %d: m[#%d] = v%d panicked: %s", i, op.Key, v, msg)
			}
			if next("S", i) == nil {
				return crashed(i, "assignment")
			}
			if nilMap {
				return "nil-map-write-no-panic", fmt.Sprintf("op %d: writing to a nil map did not panic", i)
			}
			if class == -1 {
				nans = append(nans, v)
				noteValue(eid(-1, v), v)
			} else {
				if e := model[class]; e != nil {
					e.val = v
				} else {
					model[class] = &ent{v}
				}
				noteValue(eid(class, 0), v)
			}
		case "get", "get1":
			class := classB(kt, op.Key)
			want, present := 0, false
			if e := model[class]; class >= 0 && e != nil {
				want, present = e.val, true
			}
			if et == "empty" {
				want = 0
			}
			var got int
			if op.K == "get" {
				f := next("G", i)
				if f == nil || len(f) < 4 {
					return crashed(i, "lookup")
				}
				got, _ = strconv.Atoi(f[2])
				if ok := f[3] == "true"; ok != present {
					return "lookup-wrong-presence", fmt.Sprintf("op %d: lookup of key #%d reported ok=%v but the key is %s", i, op.Key, ok, map[bool]string{true: "present", false: "absent"}[present])
				}
			} else {
				f := next("H", i)
				if f == nil || len(f) < 3 {
					return crashed(i, "lookup")
				}
				got, _ = strconv.Atoi(f[2])
			}
			if got != want {
				return "lookup-wrong-value", fmt.Sprintf("op %d: lookup of key #%d returned v%d, most recently stored v%d", i, op.Key, got, want)
			}
		case "poke":
			if next("K", i) == nil {
				return crashed(i, "poke")
			}
		case "del":
			if next("D", i) == nil {
				return crashed(i, "delete")
			}
			if class := classB(kt, op.Key); class >= 0 && model[class] != nil {
				delete(model, class)
				noteDelete(eid(class, 0))
			}
		case "clear":
			if next("C", i) == nil {
				return crashed(i, "clear")
			}
			for c := range model {
				noteDelete(eid(c, 0))
			}
			for _, nv := range nans {
				noteDelete(eid(-1, nv))
			}
			model = map[int]*ent{}
			nans = nil
		case "len":
			f := next("L", i)
			if f == nil || len(f) < 3 {
				return crashed(i, "len")
			}
			if n, _ := strconv.Atoi(f[2]); n != len(model)+len(nans) {
				return "len-wrong", fmt.Sprintf("op %d: len(m) = %d but %d entries are live", i, n, len(model)+len(nans))
			}
		case "istart":
			if next("B", i) == nil {
				return crashed(i, "range")
			}
			it := &iterB{id: op.It, keyOnly: op.It%3 == 1, snapshot: map[string]bool{}, deleted: map[string]bool{}, yielded: map[string]bool{}, held: map[string]map[int]bool{}}
			for c, e := range model {
				id := eid(c, 0)
				it.snapshot[id] = true
				it.held[id] = map[int]bool{e.val: true}
			}
			for _, nv := range nans {
				id := eid(-1, nv)
				it.snapshot[id] = true
				it.held[id] = map[int]bool{nv: true}
			}
			stack = append(stack, it)
			if c, d, ended := step(it, i); c != "" {
				return c, d
			} else if ended {
				pop()
			}
		case "inext", "idrop", "idrain":
			if len(stack) == 0 || stack[len(stack)-1].id != op.It {
				continue // not addressed to the innermost live loop: the interpreter ignores it
			}
			it := stack[len(stack)-1]
			if op.K == "idrop" {
				if next("X", i) == nil {
					return crashed(i, "break")
				}
				pop()
				continue
			}
			for {
				c, d, ended := step(it, i)
				if c != "" {
					return c, d
				}
				if ended {
					pop()
					break
				}
				if op.K == "inext" {
					break
				}
			}
		case "setbad", "getbad", "delbad", "get1bad":
			if kt != "iface" {
				if next("N", i) == nil {
					return crashed(i, op.K)
				}
				continue
			}
			if f := next("P", i); f != nil {
				msg := strings.Join(f[2:], " ")
				if op.K == "setbad" && nilMap && strings.Contains(msg, "nil map") {
					continue
				}
				if !strings.Contains(msg, "unhashable") {
					return "unhashable-key-no-panic", fmt.Sprintf("op %d: %s with an unhashable dynamic value (variant %d) as key panicked with %q instead of a 'hash of unhashable type' run-time error", i, op.K, op.Key%6, msg)
				}
				continue
			}
			if next("N", i) == nil {
				return crashed(i, op.K)
			}
			return "unhashable-key-no-panic", fmt.Sprintf("op %d: %s with an unhashable dynamic value as key (variant %d of: slice, map, func, struct with a blank func-array field, array of such, struct holding a slice in an interface) did not panic", i, op.K, op.Key%6)
		}
	}
	if f := next("Z", len(sc.Ops)); f == nil {
		if k := peek(); k == "" || r.end != "exit" {
			return crashed(len(sc.Ops), "end of history")
		}
		return "compiled-program-failed", fmt.Sprintf("unexpected output at the end of the history: %q", lines[li])
	}
	if r.end != "exit" {
		return crashed(len(sc.Ops), "exit")
	}
	return "", ""
}

func bEnv() []string {
	return []string{"PATH=" + bGo123 + ":/usr/bin:/bin", "HOME=" + bTmp, "LLGO_ROOT=" + bRepo, "LLVM_CONFIG=" + bShim + "/bin/llvm-config",
		"GOTOOLCHAIN=local", "GOFLAGS=-mod=mod", "GOPROXY=off", "GOWORK=off", "XDG_CACHE_HOME=" + bCache,
		"GOCACHE=" + os.Getenv("VERIF_B_GOCACHE"), "GOMODCACHE=" + os.Getenv("VERIF_B_GOMODCACHE")}
}

func buildInterpreterB(dir string) (string, string, error) {
	src := genInterpreterB()
	os.MkdirAll(dir, 0o755)
	os.WriteFile(filepath.Join(dir, "go.mod"), []byte("module progb\n\ngo 1.23\n"), 0o644)
	os.WriteFile(filepath.Join(dir, "main.go"), []byte(src), 0o644)
	bin := filepath.Join(dir, "prog.out")
	// -O0: LLVM 14's optimiser, with the opaque pointers this sandbox has to force
	// on, merges getelementptr instructions that differ only in their source
	// element type (seen in runtime.typehash: the array length read from the
	// TFlag field's address); such miscompilations are the sandbox's, not llgo's
	cmd := exec.Command(bLlgo, "build", "-O0", "-o", bin, ".")
	cmd.Dir = dir
	cmd.Env = bEnv()
	out, err := cmd.CombinedOutput()
	sum := fmt.Sprintf("%x", sha256.Sum256([]byte(src)))
	if err != nil {
		s := string(out)
		if len(s) > 1500 {
			s = s[len(s)-1500:]
		}
		return "", sum, fmt.Errorf("llgo build of the map interpreter failed: %v\n%s", err, s)
	}
	return bin, sum, nil
}

// shrinkB removes operations while the same class of violation persists and
// the history stays valid for this layer.
func shrinkB(bin string, sc *ScenarioB, class string) *ScenarioB {
	cur := sc
	try := func(ops []Op) bool {
		c := *cur
		c.Ops = ops
		if !validB(&c) {
			return false
		}
		cls, _ := judgeMapB(&c, runMapB(bin, &c))
		if cls == class {
			cur = &c
			return true
		}
		return false
	}
	for chunk := len(cur.Ops) / 2; chunk >= 1; chunk /= 2 {
		for i := 0; i+chunk <= len(cur.Ops); {
			ops := append(append([]Op{}, cur.Ops[:i]...), cur.Ops[i+chunk:]...)
			if !try(ops) {
				i += chunk
			}
		}
	}
	return cur
}

// ExtraPhase implements driver.ExtraPhaser.
func (prop) ExtraPhase(tier string, seed uint64, deadline time.Time) (*driver.ExtraResult, error) {
	if bLlgo == "" {
		return nil, nil
	}
	er := &driver.ExtraResult{Name: "layer_b", Coverage: map[string]any{}}
	dir := filepath.Join(bTmp, "interp")
	defer os.RemoveAll(dir)
	bin, sum, err := buildInterpreterB(dir)
	if err != nil {
		return nil, err
	}
	budget := 20 * time.Second
	maxRuns := 1 << 40
	if tier == "thorough" {
		budget = 600 * time.Second
	}
	if d := time.Until(deadline); d < budget {
		budget = d
	}
	stop := time.Now().Add(budget)
	// however long the build took on a loaded machine, a minimum is always run
	const minRuns = 600
	const workers = 16
	type found struct {
		idx        int
		sc         *ScenarioB
		cls, det   string
		out        string
	}
	var mu sync.Mutex
	var viols, knownViols []found
	knownRuns := 0
	runs, ops, yields := 0, 0, 0
	detChecks, nondet := 0, 0
	combos := map[string]int{}
	ends := map[string]int{}
	hashes := map[[32]byte]bool{}
	var wg sync.WaitGroup
	for w := 0; w < workers; w++ {
		wg.Add(1)
		go func(w int) {
			defer wg.Done()
			for i := w; i < maxRuns; i += workers {
				mu.Lock()
				nv, done := len(viols), runs
				mu.Unlock()
				if time.Now().After(stop) && done >= minRuns {
					return
				}
				if nv >= 3 {
					return
				}
				ch := sim.NewChoices(sim.RunSeed(seed^0xc06b, uint64(i)))
				sc := genMapB(ch.Rng(), tier)
				r := runMapB(bin, sc)
				cls, det := judgeMapB(sc, r)
				if i%64 == 0 {
					// determinism self-check: the same history and rand seed in a second process
					if r2 := runMapB(bin, sc); r2.out != r.out {
						mu.Lock()
						nondet++
						mu.Unlock()
					} else {
						mu.Lock()
						detChecks++
						mu.Unlock()
					}
				}
				mu.Lock()
				runs++
				ops += len(sc.Ops)
				yields += strings.Count(r.out, "\nY ")
				combos[sc.KeyT+"/"+sc.ElemT]++
				ends[r.end]++
				if len(hashes) < 200000 {
					hashes[sha256.Sum256([]byte(r.out))] = true
				}
				if cls != "" && sc.KeyT == "arrzs" {
					// listed finding C06-K4 (the key type's descriptor size is not its
					// memory stride): kept apart, it does not end the search
					if len(knownViols) == 0 {
						knownViols = append(knownViols, found{i, sc, cls, det, r.out})
					}
					knownRuns++
				} else if cls != "" {
					viols = append(viols, found{i, sc, cls, det, r.out})
				}
				mu.Unlock()
			}
		}(w)
	}
	wg.Wait()
	if nondet > 0 {
		return nil, fmt.Errorf("layer B: %d of %d histories run twice printed different outputs: the rand seam does not make the compiled interpreter deterministic", nondet, nondet+detChecks)
	}
	sort.Slice(viols, func(a, b int) bool { return viols[a].idx < viols[b].idx })
	for _, v := range viols {
		// exact replay first, then minimise
		r2 := runMapB(bin, v.sc)
		if r2.out != v.out {
			return nil, fmt.Errorf("layer B: history %d does not replay (outputs of two runs with the same rand seed differ)", v.idx)
		}
		small := shrinkB(bin, v.sc, v.cls)
		rs := runMapB(bin, small)
		cls, det := judgeMapB(small, rs)
		if cls != v.cls {
			small, cls, det, rs = v.sc, v.cls, v.det, r2
		}
		rp := bReplay{Layer: "B", Scenario: small, Class: cls, Detail: det, Output: strings.Split(strings.TrimSpace(rs.out), "\n"), ProgramSHA: sum}
		if len(rp.Output) > 400 {
			rp.Output = rp.Output[len(rp.Output)-400:]
		}
		b, _ := json.MarshalIndent(rp, "", " ")
		er.Violations = append(er.Violations, driver.ExtraViolation{Class: cls, Detail: fmt.Sprintf("[compiled map interpreter, map[%s]%s, %d ops after minimisation] %s", small.KeyT, small.ElemT, len(small.Ops), det), Name: fmt.Sprintf("B-%d", v.idx), Replay: b})
	}
	for _, v := range knownViols {
		small := shrinkB(bin, v.sc, v.cls)
		rs := runMapB(bin, small)
		cls, det := judgeMapB(small, rs)
		if cls != v.cls {
			small, cls, det, rs = v.sc, v.cls, v.det, runMapB(bin, v.sc)
		}
		const k4 = "map-misbehaves-for-array-of-structs-ending-in-zero-size-field"
		rp := bReplay{Layer: "B", Scenario: small, Class: k4, Detail: "(" + cls + ") " + det, Output: strings.Split(strings.TrimSpace(rs.out), "\n"), ProgramSHA: sum}
		if len(rp.Output) > 400 {
			rp.Output = rp.Output[len(rp.Output)-400:]
		}
		b, _ := json.MarshalIndent(rp, "", " ")
		er.Violations = append(er.Violations, driver.ExtraViolation{Class: k4, Detail: fmt.Sprintf("[compiled map interpreter, map[%s]%s, %d ops after minimisation] (%s) %s", small.KeyT, small.ElemT, len(small.Ops), cls, det), Name: fmt.Sprintf("B-%d", v.idx), Replay: b, Tags: []string{"key-type-array-of-structs-ending-in-a-zero-size-field"}})
	}
	er.Coverage["histories_matching_listed_finding_C06-K4"] = knownRuns
	er.Evaluations = runs
	er.Coverage["histories_run"] = runs
	er.Coverage["operations"] = ops
	er.Coverage["range_yields"] = yields
	er.Coverage["distinct_outputs"] = len(hashes)
	er.Coverage["histories_per_type_combination"] = combos
	er.Coverage["run_endings"] = ends
	er.Coverage["histories_run_twice_with_identical_output"] = detChecks
	er.Coverage["interpreter_sha256"] = sum
	if len(er.Violations) == 0 {
		if err := ifaceRacePhase(er, tier, seed, deadline); err != nil {
			return nil, err
		}
	}
	er.Coverage["components"] = "real: llgo compiler lowering of make/index/assign/delete/clear/len/range for 53 concrete map types (23 key kinds, 7 element kinds), llgo-compiled map runtime, hash and equality functions, type descriptors emitted by the compiler; stub: C rand (hash key material, range start positions) drawn from the history's seed, LLVM 14, bdwgc"
	return er, nil
}

// ReplayExtra re-executes a Layer-B violation: rebuild the interpreter, run the recorded history.
func (prop) ReplayExtra(raw []byte) (string, string, error) {
	var rp bReplay
	if err := json.Unmarshal(raw, &rp); err != nil {
		return "", "", err
	}
	if rp.Layer == "B-sched" {
		return replaySched(raw)
	}
	if bLlgo == "" {
		return "", "", fmt.Errorf("llgo could not be built here: layer B replays are not available")
	}
	dir := filepath.Join(bTmp, "replay-interp")
	defer os.RemoveAll(dir)
	bin, _, err := buildInterpreterB(dir)
	if err != nil {
		return "", "", err
	}
	r := runMapB(bin, rp.Scenario)
	fmt.Print(r.out)
	cls, det := judgeMapB(rp.Scenario, r)
	if cls != "" && rp.Scenario.KeyT == "arrzs" {
		cls, det = "map-misbehaves-for-array-of-structs-ending-in-zero-size-field", "("+cls+") "+det
	}
	return cls, det, nil
}
