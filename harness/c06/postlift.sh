# sourced by vcheck after lifting.  Layer B (the compiled map interpreter) needs
# the real llgo built from the working tree, the LLVM-14 tool shim and the
# rand() seam.  If this environment cannot build or run llgo the layer is
# skipped (stated in the evidence), never reported as a violation.
B=$SCR/layerb
mkdir -p "$B/ov" "$B/tmp" "$B/cache"
GO123=${VERIF_GO123:-/usr/lib/go-1.23/bin}
LLGO_BUILD_GO=${VERIF_LLGO_BUILD_GO:-/root/go/pkg/mod/golang.org/toolchain@v0.0.1-go1.24.0.linux-amd64/bin/go}
[ -x "$LLGO_BUILD_GO" ] || LLGO_BUILD_GO=$GO
layerb_ok=1
cp "$VERIF/overlay/zz_verif_opaque.go" "$B/ov/" || layerb_ok=0
echo "{\"Replace\": {\"$REPO/ssa/zz_verif_opaque.go\": \"$B/ov/zz_verif_opaque.go\"}}" > "$B/overlay.json"
if [ $layerb_ok = 1 ] && [ -x "$GO123/go" ]; then
  ( cd "$REPO" && GOFLAGS=-mod=mod GOPROXY=off GOTOOLCHAIN=local GOWORK=off "$LLGO_BUILD_GO" build -tags llvm14,verif,dev -overlay "$B/overlay.json" -o "$B/llgo" ./cmd/llgo ) >"$B/build.log" 2>&1 || { echo "vcheck: note: llgo could not be built from the working tree here; layer B (compiled map interpreter) is skipped:" >&2; tail -5 "$B/build.log" >&2; layerb_ok=0; }
  [ $layerb_ok = 1 ] && { "$VERIF/toolchain/mkshim.sh" "$B/shim" >/dev/null || layerb_ok=0; }
  [ $layerb_ok = 1 ] && { /usr/lib/llvm-14/bin/clang -O1 -shared -fPIC -o "$B/libdetrand.so" "$VERIF/toolchain/libdetrand.c" || layerb_ok=0; }
  [ $layerb_ok = 1 ] && /usr/lib/llvm-14/bin/clang -O1 -shared -fPIC -Wno-pointer-bool-conversion -o "$B/libdetsched.so" "$VERIF/toolchain/libdetsched.c" -ldl -lpthread && export VERIF_B_SCHEDLIB=$B/libdetsched.so
  [ $layerb_ok = 1 ] && export VERIF_B_LLGO=$B/llgo VERIF_B_SHIM=$B/shim VERIF_B_RANDLIB=$B/libdetrand.so VERIF_B_TMP=$B/tmp VERIF_B_GO123=$GO123 VERIF_B_REPO=$REPO VERIF_B_CACHE=$B/cache
  export VERIF_B_GOCACHE=$("$GO123/go" env GOCACHE) VERIF_B_GOMODCACHE=$("$GO123/go" env GOMODCACHE)
fi
