package main

// Layer B, the compiled artefact: one map interpreter program, generated here,
// built by the real llgo from the working tree.  It holds one interpreter per
// key/element type combination (the text is generated per combination, so every
// m[k], m[k] = v, delete, clear, len, make and range statement is lowered by the
// compiler for that concrete type) and reads a history as a list of integers
// from standard input through C getchar.  Results go to standard error with
// println, one line per event.

import (
	"fmt"
	"strings"
)

type keyKindB struct {
	name string
	typ  string // Go type
	mk   string // body of func mk(ki int) <typ>
}

type elemKindB struct {
	name string
	typ  string
	mv   string // body of func mv(v int) <typ>
	dv   string // body of func dv(x <typ>) int
	zero string // zero value written as a constant expression
}

var keyKindsB = []keyKindB{
	{"int64", "int64", "return int64(ki) * 1000003"},
	{"int8", "int8", "return int8(ki)"},
	{"string", "string", "return strKey(\"k\", ki)"},
	{"float64", "float64", "return f64Of(ki)"},
	{"float32", "float32", "if ki == 3 {\n\t\treturn f32from(0x7fc00123)\n\t}\n\treturn float32(f64Of(ki))"},
	{"complex128", "complex128", "switch ki {\n\tcase 0:\n\t\treturn complex(0, 0)\n\tcase 1:\n\t\treturn complex(f64Of(1), 0)\n\tcase 2:\n\t\treturn complex(f64Of(2), 1)\n\tcase 3:\n\t\treturn complex(1, f64Of(2))\n\t}\n\treturn complex(float64(ki), float64(-ki)/2)"},
	{"arr2i32", "[2]int32", "return [2]int32{int32(ki), int32(-ki)}"},
	{"arr3i32", "[3]int32", "return [3]int32{int32(ki), int32(ki * 3), int32(-ki)}"},
	{"struct", "struct {\n\tA int32\n\tS string\n\tB int8\n}", "var k K_struct\n\tk.A, k.S, k.B = int32(ki), strKey(\"s\", ki), int8(ki>>3)\n\treturn k"},
	{"structf", "struct {\n\tF float64\n\tI int8\n}", "var k K_structf\n\tk.F, k.I = f64Of(ki%6), int8(ki/6)\n\tif ki%6 == 5 {\n\t\tk.F = float64(ki)\n\t}\n\treturn k"},
	{"iface", "interface{}", "switch ki % 5 {\n\tcase 0:\n\t\treturn int64(ki) * 31\n\tcase 1:\n\t\treturn strKey(\"e\", ki)\n\tcase 2:\n\t\tswitch ki {\n\t\tcase 2:\n\t\t\treturn f64Of(2)\n\t\tcase 7:\n\t\t\treturn float64(0)\n\t\tcase 12:\n\t\t\treturn f64Of(1)\n\t\t}\n\t\treturn float64(ki) + 0.25\n\tcase 3:\n\t\treturn [2]int32{int32(ki), int32(-ki)}\n\t}\n\tif ki == 9 {\n\t\treturn (*int64)(nil) // a typed nil pointer\n\t}\n\treturn &cells[ki%4096]"},
	{"big", "[20]int64", "var k [20]int64\n\tk[0], k[19] = int64(ki), int64(-ki)\n\treturn k"},
	{"ptr", "*int64", "return &cells[ki%4096]"},
	{"padded", "struct {\n\tA int8\n\tB int64\n\tC int16\n}", "var k K_padded\n\tk.A, k.B, k.C = int8(ki), int64(ki)*77, int16(ki>>2)\n\treturn k"},
	{"strarr", "[2]string", "return [2]string{strKey(\"a\", ki), strKey(\"b\", ki/2)}"},
	{"nested", "struct {\n\tP struct {\n\t\tX float32\n\t\tY int8\n\t}\n\tS string\n\tI interface{}\n}", "var k K_nested\n\tk.P.X, k.P.Y, k.S = float32(ki)/4, int8(ki), strKey(\"n\", ki%5)\n\tif ki%3 == 0 {\n\t\tk.I = int16(ki)\n\t} else if ki%3 == 1 {\n\t\tk.I = strKey(\"i\", ki)\n\t}\n\treturn k"},
	{"bool", "bool", "return ki%2 == 1"},
	{"uint16", "uint16", "return uint16(ki * 257)"},
	{"chanint", "chan int", "return chans[ki%4096]"},
	{"named", "myInt", "return myInt(ki) - 600"},
	{"ifacetag", "interface{}", "switch ki % 4 {\n\tcase 0:\n\t\treturn struct {\n\t\t\tA int \"t:\\\"1\\\"\"\n\t\t}{A: ki / 4}\n\tcase 1:\n\t\treturn struct {\n\t\t\tA int \"t:\\\"2\\\"\"\n\t\t}{A: ki / 4}\n\tcase 2:\n\t\treturn struct{ baseA }{baseA{ki / 4}}\n\t}\n\treturn struct{ aliasA }{aliasA{ki / 4}}"}, // unnamed struct types that differ only in a tag or in the name of an embedded alias field
	{"arrzs", "[2]zsTail", "return [2]zsTail{{A: int64(ki)}, {A: int64(-ki)}}"}, // array of structs that end in a zero-size field
	{"arr1f64", "[1]float64", "return [1]float64{f64Of(ki)}"},                                                                                                 // small arrays of floats: +0 == -0, NaN != NaN
	{"arr2f32", "[2]float32", "a := float32(f64Of(ki % 6))\n\tif ki%6 == 5 {\n\t\ta = float32(ki)\n\t}\n\treturn [2]float32{a, float32(ki / 6)}"},
	// a non-empty interface type as key (hashed and compared through the method table, not the type word):
	// struct, string, pointer-receiver (also a typed nil pointer) and integer dynamic types
	{"ifacem", "keyI", "switch ki % 4 {\n\tcase 0:\n\t\treturn imT{int32(ki), strKey(\"m\", ki)}\n\tcase 1:\n\t\treturn imS(strKey(\"i\", ki))\n\tcase 2:\n\t\tif ki == 10 {\n\t\t\treturn (*imP)(nil)\n\t\t}\n\t\treturn &pcells[ki%4096]\n\t}\n\treturn imN(ki) * 17"},
	{"k128", "[16]int64", "var k [16]int64\n\tk[0], k[15] = int64(ki), int64(-ki)\n\treturn k"}, // exactly the inline limit
}

var elemKindsB = []elemKindB{
	{"int64", "int64", "return int64(v)", "return int(x)", "0"},
	{"empty", "struct{}", "return struct{}{}", "return 0", "struct{}{}"},
	{"big200", "[25]int64", "var a [25]int64\n\ta[0], a[24] = int64(v), int64(v)*3\n\treturn a", "if x[24] != x[0]*3 {\n\t\treturn -1\n\t}\n\treturn int(x[0])", "[25]int64{}"},
	{"string", "string", "return \"v\" + itoa(v)", "if len(x) == 0 {\n\t\treturn 0\n\t}\n\tif x[0] != 'v' {\n\t\treturn -1\n\t}\n\tn := 0\n\tfor i := 1; i < len(x); i++ {\n\t\tif x[i] < '0' || x[i] > '9' {\n\t\t\treturn -1\n\t\t}\n\t\tn = n*10 + int(x[i]-'0')\n\t}\n\treturn n", "\"\""},
	{"func", "func() int", "x := v\n\treturn func() int { return x }", "if x == nil {\n\t\treturn 0\n\t}\n\treturn x()", "nil"}, // a closure: two words in the slot
	{"huge", "[200]int64", "var a [200]int64\n\ta[0], a[199] = int64(v), int64(v)*3\n\treturn a", "for i := 1; i < 199; i++ {\n\t\tif x[i] != 0 {\n\t\t\treturn -1\n\t\t}\n\t}\n\tif x[199] != x[0]*3 {\n\t\treturn -1\n\t}\n\treturn int(x[0])", "[200]int64{}"}, // larger than the runtime's shared zero value
	{"e128", "[16]int64", "var a [16]int64\n\ta[0], a[15] = int64(v), int64(v)*3\n\treturn a", "if x[15] != x[0]*3 {\n\t\treturn -1\n\t}\n\treturn int(x[0])", "[16]int64{}"}, // exactly the inline limit
}

// combosB: every key kind with int64 elements, and the other element kinds
// with an inline-key, a string-key and an out-of-line-key map.
type comboB struct{ key, elem int }

var combosB = func() []comboB {
	var cs []comboB
	for k := range keyKindsB {
		cs = append(cs, comboB{k, 0})
	}
	for e := 1; e < len(elemKindsB); e++ {
		for _, kn := range []string{"int64", "string", "big", "iface", "k128"} {
			for k := range keyKindsB {
				if keyKindsB[k].name == kn {
					cs = append(cs, comboB{k, e})
				}
			}
		}
	}
	return cs
}()

const progPreludeB = `package main

import "unsafe"

//go:linkname getchar C.getchar
func getchar() int32

type myInt int32

type tagS1 struct {
	A int "t:\"1\""
}

type tagS2 struct {
	A int "t:\"2\""
}

type baseA struct{ V int }

type aliasA = baseA

type embS1 struct{ baseA }

type embS2 struct{ aliasA }

type zsTail struct {
	A int64
	Z struct{}
}

type keyI interface{ M() int }

type imT struct {
	a int32
	s string
}

func (t imT) M() int { return int(t.a) }

type imS string

func (s imS) M() int { return len(s) }

type imP struct {
	v int64
	w [3]int64
}

func (p *imP) M() int { return int(p.v) }

type imN int64

func (n imN) M() int { return int(n) }

var pcells [4096]imP

var chans = func() (c [4096]chan int) {
	for i := range c {
		c[i] = make(chan int)
	}
	return
}()

var (
	eof      bool
	ended    bool
	opi      int
	draining = -1
	nextVal  int
	cells    [4096]int64
)

func readInt() int {
	c := getchar()
	for c == ' ' || c == '\n' {
		c = getchar()
	}
	if c < 0 {
		eof = true
		return 0
	}
	neg := false
	if c == '-' {
		neg = true
		c = getchar()
	}
	n := 0
	for c >= '0' && c <= '9' {
		n = n*10 + int(c-'0')
		c = getchar()
	}
	if neg {
		n = -n
	}
	return n
}

func itoa(n int) string {
	if n == 0 {
		return "0"
	}
	neg := n < 0
	if neg {
		n = -n
	}
	s := ""
	for n > 0 {
		s = string(rune('0'+n%10)) + s
		n /= 10
	}
	if neg {
		s = "-" + s
	}
	return s
}

func repeat(s string, n int) string {
	r := ""
	for i := 0; i < n; i++ {
		r += s
	}
	return r
}

// strKey: "" for 0; lengths spread over 2..21, every 7th key much longer
func strKey(prefix string, ki int) string {
	if ki == 0 {
		return ""
	}
	s := prefix + itoa(ki) + repeat("x", ki*7%17)
	if ki%7 == 0 {
		s += repeat("-pad", 12)
	}
	return s
}

func f64from(b uint64) float64 { return *(*float64)(unsafe.Pointer(&b)) }
func f32from(b uint32) float32 { return *(*float32)(unsafe.Pointer(&b)) }

// f64Of: +0, -0, two NaNs, +Inf, then ordinary values
func f64Of(ki int) float64 {
	switch ki {
	case 0:
		return 0
	case 1:
		return f64from(1 << 63)
	case 2:
		return f64from(0x7ff8000000000001)
	case 3:
		return f64from(0x7ff8000000000123)
	case 4:
		return f64from(0x7ff0000000000000)
	}
	return float64(ki) * 1.5
}

func errText(r interface{}) string {
	if e, ok := r.(error); ok {
		return e.Error()
	}
	if s, ok := r.(string); ok {
		return s
	}
	return "?"
}
`

// comboTextB is the interpreter for one combination; @C is the combination
// index, @K/@V the key and element kind names.
const comboTextB = `
var m_@C map[K_@K]V_@V

// find_@C names the first pool key equal to k: -1 for a key that equals nothing (NaN), -2 for a stranger
func find_@C(k K_@K, pool int) int {
	if k != k {
		return -1
	}
	for i := 0; i < pool; i++ {
		if mk_@K(i) == k {
			return i
		}
	}
	return -2
}

func set_@C(ki, v int) {
	defer func() {
		if r := recover(); r != nil {
			println("P", opi, errText(r))
		}
	}()
	m_@C[mk_@K(ki)] = mv_@V(v)
	println("S", opi)
}

func setzero_@C(ki int) {
	defer func() {
		if r := recover(); r != nil {
			println("P", opi, errText(r))
		}
	}()
	m_@C[mk_@K(ki)] = @Z
	println("S", opi)
}

func exec_@C(cur int, pool int) int {
	for {
		op := readInt()
		if eof || op == 0 {
			ended = true
			return 0
		}
		a := readInt()
		opi++
		switch op {
		case 1:
			nextVal++
			set_@C(a, nextVal)
		case 2:
			v, ok := m_@C[mk_@K(a)]
			println("G", opi, dv_@V(v), ok)
		case 3:
			v := m_@C[mk_@K(a)]
			println("H", opi, dv_@V(v))
		case 4:
			delete(m_@C, mk_@K(a))
			println("D", opi)
		case 5:
			clear(m_@C)
			println("C", opi)
		case 6:
			println("L", opi, len(m_@C))
		case 7:
			println("B", opi, a)
			natural := true
			if a%3 == 1 {
				// key-only form
				for k := range m_@C {
					println("Y", opi, a, find_@C(k, pool), -7)
					if draining == a {
						continue
					}
					if exec_@C(a, pool) != 1 {
						natural = false
						break
					}
				}
			} else {
				for k, v := range m_@C {
					println("Y", opi, a, find_@C(k, pool), dv_@V(v))
					if draining == a {
						continue
					}
					if exec_@C(a, pool) != 1 {
						natural = false
						break
					}
				}
			}
			if draining == a {
				draining = -1
			}
			if natural {
				println("E", opi, a)
			}
			if ended {
				return 0
			}
		case 8:
			if a == cur {
				return 1
			}
		case 9:
			if a == cur {
				println("X", opi, a)
				return 2
			}
		case 10:
			if a == cur {
				draining = a
				return 1
			}
		case 11, 12, 13, 15:
			bad_@C(op, a)
		case 17:
			// the objects that pointer keys point to change; the keys do not
			cells[a%4096] += 7
			cells[(a+1)%4096]--
			for d := 0; d < 4; d++ {
				pcells[(a+d)%4096].v += int64(3 + d)
			}
			println("K", opi)
		case 14:
			setzero_@C(a)
		case 16:
			add_@C(a)
		}
	}
}
`

const badIfaceB = `
func bad_@C(op, variant int) {
	defer func() {
		if r := recover(); r != nil {
			println("P", opi, errText(r))
		}
	}()
	bk := badKey(variant)
	switch op {
	case 11:
		m_@C[bk] = mv_@V(1)
	case 12:
		_, ok := m_@C[bk]
		_ = ok
	case 13:
		delete(m_@C, bk)
	case 15:
		v := m_@C[bk]
		_ = v
	}
	println("N", opi)
}
`

const badOtherB = `
func bad_@C(op, variant int) { println("N", opi) }
`

const addIntB = `
func add_@C(ki int) {
	defer func() {
		if r := recover(); r != nil {
			println("P", opi, errText(r))
		}
	}()
	m_@C[mk_@K(ki)] += 1000000
	println("S", opi)
}
`

const addOtherB = `
func add_@C(ki int) { println("S", opi) }
`

const badKeysB = `
type noCmp struct {
	A int
	_ [0]func()
}

type holdsIface struct{ X interface{} }

// badKey: dynamic values that cannot be hashed
func badKey(variant int) interface{} {
	switch variant % 6 {
	case 0:
		return []int{1, 2}
	case 1:
		return map[int]int{1: 2}
	case 2:
		return func() {}
	case 3:
		return noCmp{A: 3}
	case 4:
		return [2]noCmp{{A: 1}, {A: 2}}
	}
	return holdsIface{X: []int{3}}
}
`

// genInterpreterB renders the whole program.
func genInterpreterB() string {
	var sb strings.Builder
	sb.WriteString(progPreludeB)
	sb.WriteString(badKeysB)
	for _, k := range keyKindsB {
		fmt.Fprintf(&sb, "\ntype K_%s = %s\n\nfunc mk_%s(ki int) K_%s {\n\t%s\n}\n", k.name, k.typ, k.name, k.name, k.mk)
	}
	for _, e := range elemKindsB {
		fmt.Fprintf(&sb, "\ntype V_%s = %s\n\nfunc mv_%s(v int) V_%s {\n\t%s\n}\n\nfunc dv_%s(x V_%s) int {\n\t%s\n}\n", e.name, e.typ, e.name, e.name, e.mv, e.name, e.name, e.dv)
	}
	r := func(t string, ci int, c comboB) string {
		t = strings.ReplaceAll(t, "@C", fmt.Sprint(ci))
		t = strings.ReplaceAll(t, "@K", keyKindsB[c.key].name)
		t = strings.ReplaceAll(t, "@Z", elemKindsB[c.elem].zero)
		return strings.ReplaceAll(t, "@V", elemKindsB[c.elem].name)
	}
	for ci, c := range combosB {
		sb.WriteString(r(comboTextB, ci, c))
		if keyKindsB[c.key].name == "iface" {
			sb.WriteString(r(badIfaceB, ci, c))
		} else {
			sb.WriteString(r(badOtherB, ci, c))
		}
		if elemKindsB[c.elem].name == "int64" {
			sb.WriteString(r(addIntB, ci, c))
		} else {
			sb.WriteString(r(addOtherB, ci, c))
		}
	}
	sb.WriteString("\nfunc main() {\n\tcombo, hint, pool := readInt(), readInt(), readInt()\n\tswitch combo {\n")
	for ci, c := range combosB {
		fmt.Fprintf(&sb, "\tcase %d:\n\t\tif hint == 0 {\n\t\t\tm_%d = make(map[K_%s]V_%s)\n\t\t} else if hint > 0 {\n\t\t\tm_%d = make(map[K_%s]V_%s, hint)\n\t\t}\n\t\texec_%d(-1, pool)\n", ci, ci, keyKindsB[c.key].name, elemKindsB[c.elem].name, ci, keyKindsB[c.key].name, elemKindsB[c.elem].name, ci)
	}
	sb.WriteString("\t}\n\tprintln(\"Z\", opi)\n}\n")
	return sb.String()
}
