// C06: maps as finite maps.  Runs llgo's real hash map (runtime map.go, alg.go,
// hash64.go, z_map.go) with every random draw of the code (hash seeds,
// iteration start bucket/offset) supplied by the simulator, and interleaves the
// steps of up to three live range-iterators with mutations of the map.
package main

import (
	"encoding/binary"
	"encoding/json"
	"fmt"
	"math"
	"os"
	"runtime/debug"
	"sort"
	"strconv"
	"strings"
	"unsafe"

	"verif/driver"
	"verif/lifted/abi"
	"verif/lifted/maprt"
	"verif/lifted/ssaabi"
	"verif/sim"
)

type Op struct {
	K   string `json:"k"` // set get get1 del clear len istart inext idrop setbad getbad delbad
	Key int    `json:"key,omitempty"`
	It  int    `json:"it,omitempty"`
}

type Scenario struct {
	KeyT    string    `json:"key_type"`
	ElemT   string    `json:"elem_type"`
	Hint    int       `json:"hint"`    // make(map, hint); -1 = nil map
	Degen   int       `json:"degen"`   // >0: legal but degenerate hasher (hash mod Degen): long overflow chains with small maps
	HashKey [4]uint64 `json:"hashkey"` // process-wide hash key material (C.rand at start-up in a real build)
	Ops     []Op      `json:"ops"`
}

type prop struct{}

func (prop) ID() string { return "C06" }

func (prop) Decode(b []byte) (driver.Scenario, error) {
	var sc Scenario
	err := json.Unmarshal(b, &sc)
	return &sc, err
}

var keyKinds = []string{"int64", "int64", "string", "string", "string", "float64", "float32", "complex128", "arr2i32", "arr3i32", "struct", "structf", "iface", "iface", "big", "int8"}
var elemKinds = []string{"int64", "int64", "int64", "empty", "big200", "string"}

// ---- generation ------------------------------------------------------------------

func (prop) Generate(rng *sim.Rng, tier string, runIndex int) driver.Scenario {
	sc := &Scenario{KeyT: keyKinds[rng.Intn(len(keyKinds))], ElemT: elemKinds[rng.Intn(len(elemKinds))]}
	sc.Hint = []int{0, 0, 0, 5, 9, 100, -1}[rng.Intn(7)]
	if rng.Intn(4) == 0 {
		sc.Degen = []int{1, 2, 3, 7, 17}[rng.Intn(5)]
	}
	for i := range sc.HashKey {
		sc.HashKey[i] = rng.Uint64()
	}
	pool := []int{3, 8, 20, 70, 300, 1200}[rng.Intn(6)]
	n := rng.Range(5, 120)
	switch rng.Intn(6) {
	case 0:
		n = rng.Range(100, 1200)
	case 1:
		if tier == "thorough" {
			n = rng.Range(1000, 6000)
		}
	}
	if sc.Hint < 0 {
		n = rng.Range(1, 12)
	}
	if rng.Intn(10) == 0 && sc.Hint >= 0 {
		// chain churn under the grouped hasher: fill one collision group, drain
		// most of it, move to the next; a range loop or two run alongside
		sc.Degen = -1
		groups := rng.Range(3, 12)
		itLive := false
		// clear(m) at any moment, also while a same-size grow is under way, now and
		// then followed straight away by enough entries to make the table double
		maybeClear := func(base int) {
			if rng.Intn(50) != 0 {
				return
			}
			sc.Ops = append(sc.Ops, Op{K: "clear"})
			if rng.Bool() {
				for i, m := 0, rng.Range(60, 300); i < m; i++ {
					sc.Ops = append(sc.Ops, Op{K: "set", Key: base + 24 + i})
				}
				for i := 0; i < 6; i++ {
					sc.Ops = append(sc.Ops, Op{K: "get", Key: base + 24 + rng.Intn(60)})
				}
				sc.Ops = append(sc.Ops, Op{K: "len"})
			}
		}
		for g := 0; g < groups; g++ {
			base := g * 24
			k := rng.Range(12, 24)
			for i := 0; i < k; i++ {
				sc.Ops = append(sc.Ops, Op{K: "set", Key: base + i})
				maybeClear(base)
				if rng.Intn(4) == 0 {
					// look-ups of keys of this and earlier groups while grows are in progress
					sc.Ops = append(sc.Ops, Op{K: []string{"get", "get1"}[rng.Intn(2)], Key: rng.Intn(base + 24)})
				}
				if rng.Intn(9) == 0 {
					if !itLive {
						sc.Ops = append(sc.Ops, Op{K: "istart", It: 0})
						itLive = true
					} else {
						sc.Ops = append(sc.Ops, Op{K: "inext", It: 0})
					}
				}
			}
			for i := 0; i < k; i++ {
				if rng.Intn(8) != 0 {
					sc.Ops = append(sc.Ops, Op{K: "del", Key: base + i})
				}
				maybeClear(base)
				if rng.Intn(4) == 0 {
					sc.Ops = append(sc.Ops, Op{K: []string{"get", "get1"}[rng.Intn(2)], Key: rng.Intn(base + 24)})
				}
				if itLive && rng.Intn(6) == 0 {
					sc.Ops = append(sc.Ops, Op{K: "inext", It: 0})
				}
			}
			if rng.Intn(4) == 0 {
				sc.Ops = append(sc.Ops, Op{K: "get", Key: base + rng.Intn(24)}, Op{K: "len"})
			}
		}
		if itLive {
			sc.Ops = append(sc.Ops, Op{K: "idrain", It: 0})
		}
		sc.Ops = append(sc.Ops, Op{K: "istart", It: 1}, Op{K: "idrain", It: 1})
		return sc
	}
	// phases bias the mix: fill, churn, drain
	wSet, wDel, wGet, wIter, wClear := 6, 2, 3, 2, 0
	if rng.Intn(3) == 0 {
		wClear = 1
	}
	live := map[int]bool{}
	nextIt := 0
	for len(sc.Ops) < n {
		if rng.Intn(40) == 0 {
			switch rng.Intn(3) {
			case 0:
				wSet, wDel = 8, 1
			case 1:
				wSet, wDel = 2, 7
			case 2:
				wSet, wDel = 4, 4
			}
			wIter = rng.Intn(5)
		}
		tot := wSet + wDel + wGet + wIter + wClear + 1
		r := rng.Intn(tot * 4)
		key := rng.Intn(pool)
		if rng.Intn(3) == 0 {
			key = rng.Intn(1 + pool/4) // hot keys
		}
		switch {
		case r < wSet*4:
			sc.Ops = append(sc.Ops, Op{K: "set", Key: key})
		case r < (wSet+wDel)*4:
			sc.Ops = append(sc.Ops, Op{K: "del", Key: key})
		case r < (wSet+wDel+wGet)*4:
			sc.Ops = append(sc.Ops, Op{K: []string{"get", "get", "get1", "len"}[rng.Intn(4)], Key: key})
		case r < (wSet+wDel+wGet+wIter)*4:
			// iterator step: start a new one or advance / drop a live one
			var ids []int
			for id := range live {
				ids = append(ids, id)
			}
			sort.Ints(ids)
			if len(ids) < 3 && (len(ids) == 0 || rng.Intn(3) == 0) {
				live[nextIt] = true
				sc.Ops = append(sc.Ops, Op{K: "istart", It: nextIt})
				nextIt++
			} else if len(ids) > 0 {
				id := ids[rng.Intn(len(ids))]
				if rng.Intn(25) == 0 {
					delete(live, id)
					sc.Ops = append(sc.Ops, Op{K: "idrop", It: id})
				} else {
					for k, m := 0, 1+rng.Intn(4); k < m; k++ {
						sc.Ops = append(sc.Ops, Op{K: "inext", It: id})
					}
				}
			}
		case r < (wSet+wDel+wGet+wIter+wClear)*4:
			if rng.Intn(6) == 0 {
				sc.Ops = append(sc.Ops, Op{K: "clear"})
			}
		default:
			if sc.KeyT == "iface" && rng.Intn(3) == 0 {
				sc.Ops = append(sc.Ops, Op{K: []string{"setbad", "getbad", "delbad"}[rng.Intn(3)]})
			} else {
				sc.Ops = append(sc.Ops, Op{K: "len"})
			}
		}
	}
	// run the live iterators to their end so that the completeness oracle applies
	var ids []int
	for id := range live {
		ids = append(ids, id)
	}
	sort.Ints(ids)
	for _, id := range ids {
		sc.Ops = append(sc.Ops, Op{K: "idrain", It: id})
	}
	return sc
}

// ---- key / value encodings ---------------------------------------------------------

var d = newDescs()

var ptrCells [4096]int64 // targets of *int64 dynamic values

func strKey(prefix string, ki int) string {
	if ki == 0 {
		return ""
	}
	s := prefix + strconv.Itoa(ki)
	// lengths spread over 2..21, every 7th key much longer (bulk path of memhash)
	s += strings.Repeat("x", ki*7%17)
	if ki%7 == 0 {
		s += strings.Repeat("-pad", 12)
	}
	return s
}

// retained keeps every buffer whose address is stored inside map memory alive
// for the whole run: the arenas are not scanned by Go's collector.
var retained [][]byte
var garbageSeq int

// keyBuf returns a buffer for a key of n bytes followed by bytes that differ from call to call.
func keyBuf(n int) []byte {
	garbageSeq++
	b := make([]byte, n+24)
	for i := n; i < len(b); i++ {
		b[i] = byte(garbageSeq*167 + i*31 + 3)
	}
	return b
}

func retain(b []byte) []byte { retained = append(retained, b); return b }

func putString(b []byte, s string) {
	// a string header pointing at fresh storage: equal strings never share memory
	// the bytes after the string differ from copy to copy: a hash that reads past
	// the end must not get away with it
	garbageSeq++
	st := retain(make([]byte, len(s)+24))
	copy(st, s)
	for i := len(s); i < len(st); i++ {
		st[i] = byte(garbageSeq*131 + i*29 + 7)
	}
	*(*unsafe.Pointer)(unsafe.Pointer(&b[0])) = unsafe.Pointer(&st[0])
	*(*int)(unsafe.Pointer(&b[8])) = len(s)
}

func getString(p unsafe.Pointer) string {
	ptr := *(*unsafe.Pointer)(p)
	n := *(*int)(unsafe.Add(p, 8))
	if n == 0 {
		return ""
	}
	return string(unsafe.Slice((*byte)(ptr), n))
}

func c128Of(ki int) (float64, float64) {
	switch ki {
	case 0:
		return 0, 0
	case 1:
		return math.Copysign(0, -1), 0
	case 2:
		return math.NaN(), 1
	case 3:
		return 1, math.NaN()
	}
	return float64(ki), float64(-ki) / 2
}

func f64Of(ki int) float64 {
	switch ki {
	case 0:
		return 0
	case 1:
		return math.Copysign(0, -1)
	case 2:
		return math.NaN()
	case 3:
		return math.Float64frombits(0x7ff8000000000123) // another NaN
	case 4:
		return math.Inf(1)
	}
	return float64(ki) * 1.5
}

// class: two keys are == iff they have the same class; -1 = NaN (equal to nothing)
func keyClass(kt string, ki int) int {
	switch kt {
	case "int8":
		return ki % 256
	case "float64", "float32", "complex128":
		if ki == 1 {
			return 0
		}
		if ki == 2 || ki == 3 {
			return -1
		}
	case "structf":
		switch ki % 6 {
		case 1:
			return ki - 1
		case 2, 3:
			return -1
		}
	case "iface":
		if ki%5 == 2 {
			if ki == 2 {
				return -1 // float64 NaN inside an interface
			}
			if ki == 12 {
				return 7 // float64(-0) == float64(+0) (ki 7)
			}
		}
	}
	return ki
}

func ifaceDyn(ki int) (t *abi.Type, store []byte) {
	switch ki % 5 {
	case 0:
		b := retain(make([]byte, 8))
		binary.LittleEndian.PutUint64(b, uint64(int64(ki)*31))
		return d.typ(tInt64), b
	case 1:
		b := retain(make([]byte, 16))
		putString(b, strKey("e", ki))
		return d.typ(tString), b
	case 2:
		b := retain(make([]byte, 8))
		f := float64(ki) + 0.25
		switch ki {
		case 2:
			f = math.NaN()
		case 7:
			f = 0
		case 12:
			f = math.Copysign(0, -1)
		}
		binary.LittleEndian.PutUint64(b, math.Float64bits(f))
		return d.typ(tFloat64), b
	case 3:
		b := retain(make([]byte, 8))
		binary.LittleEndian.PutUint32(b, uint32(ki))
		binary.LittleEndian.PutUint32(b[4:], uint32(-ki))
		return d.typ(tArr2), b
	}
	return d.typ(tPtrI), nil // *int64: stored directly in the data word
}

func encodeKey(kt string, ki int) unsafe.Pointer {
	switch kt {
	case "int64":
		b := keyBuf(8)
		binary.LittleEndian.PutUint64(b, uint64(int64(ki)*7919-int64(ki%3)*1000)) // ki 0 is the zero key
		return unsafe.Pointer(&b[0])
	case "int8":
		b := keyBuf(1)
		b[0] = byte(ki)
		return unsafe.Pointer(&b[0])
	case "string":
		b := keyBuf(16)
		putString(b, strKey("k", ki))
		return unsafe.Pointer(&b[0])
	case "float64":
		b := keyBuf(8)
		binary.LittleEndian.PutUint64(b, math.Float64bits(f64Of(ki)))
		return unsafe.Pointer(&b[0])
	case "float32":
		b := keyBuf(4)
		binary.LittleEndian.PutUint32(b, math.Float32bits(float32(f64Of(ki))))
		return unsafe.Pointer(&b[0])
	case "arr2i32":
		b := keyBuf(8)
		binary.LittleEndian.PutUint32(b, uint32(ki))
		binary.LittleEndian.PutUint32(b[4:], uint32(-ki))
		return unsafe.Pointer(&b[0])
	case "struct":
		b := keyBuf(24)
		binary.LittleEndian.PutUint32(b, uint32(ki%3))
		binary.LittleEndian.PutUint32(b[4:], 0xdeadbeef+uint32(ki)*3) // padding: must be ignored
		putString(b[8:], strKey("s", ki/3))                           // ki 0 is the all-zero key
		return unsafe.Pointer(&b[0])
	case "iface":
		b := keyBuf(16)
		t, st := ifaceDyn(ki)
		*(**abi.Type)(unsafe.Pointer(&b[0])) = t
		if st != nil {
			*(*unsafe.Pointer)(unsafe.Pointer(&b[8])) = unsafe.Pointer(&st[0])
		} else {
			*(*unsafe.Pointer)(unsafe.Pointer(&b[8])) = unsafe.Pointer(&ptrCells[ki%len(ptrCells)])
		}
		return unsafe.Pointer(&b[0])
	case "complex128":
		b := keyBuf(16)
		re, im := c128Of(ki)
		binary.LittleEndian.PutUint64(b, math.Float64bits(re))
		binary.LittleEndian.PutUint64(b[8:], math.Float64bits(im))
		return unsafe.Pointer(&b[0])
	case "arr3i32":
		b := keyBuf(12)
		binary.LittleEndian.PutUint32(b, uint32(ki))
		binary.LittleEndian.PutUint32(b[4:], uint32(ki*3+1))
		binary.LittleEndian.PutUint32(b[8:], uint32(-ki))
		return unsafe.Pointer(&b[0])
	case "structf":
		b := keyBuf(16)
		binary.LittleEndian.PutUint64(b, math.Float64bits(f64Of(ki%6)))
		b[8] = byte(ki / 6)
		for i := 9; i < 16; i++ {
			b[i] = byte(garbageSeq + i) // padding: must be ignored
		}
		return unsafe.Pointer(&b[0])
	case "big":
		b := keyBuf(160)
		for i := 0; i < 20; i++ {
			binary.LittleEndian.PutUint64(b[i*8:], uint64(ki)*uint64(i+1)) // ki 0 is the all-zero key
		}
		return unsafe.Pointer(&b[0])
	}
	panic("key type")
}

func badKey() unsafe.Pointer {
	// interface holding a slice: unhashable dynamic type
	b := make([]byte, 16)
	st := retain(make([]byte, 24))
	*(**abi.Type)(unsafe.Pointer(&b[0])) = d.typ(tSliceI)
	*(*unsafe.Pointer)(unsafe.Pointer(&b[8])) = unsafe.Pointer(&st[0])
	return unsafe.Pointer(&b[0])
}

// decodeKey maps key bytes found in the map back to (class, raw description).
func decodeKey(kt string, p unsafe.Pointer, pool map[string]int) (int, string) {
	var sig string
	switch kt {
	case "int64", "float64", "arr2i32":
		sig = fmt.Sprintf("%x", *(*uint64)(p))
		if kt == "float64" {
			f := *(*float64)(p)
			if f != f {
				return -1, "NaN"
			}
			if f == 0 {
				return 0, "0"
			}
		}
	case "int8":
		sig = fmt.Sprintf("%x", *(*uint8)(p))
	case "complex128":
		re, im := *(*float64)(p), *(*float64)(unsafe.Add(p, 8))
		if re != re || im != im {
			return -1, "NaN"
		}
		if re == 0 && im == 0 {
			return 0, "0"
		}
		sig = fmt.Sprintf("%x|%x", math.Float64bits(re), math.Float64bits(im))
	case "arr3i32":
		sig = fmt.Sprintf("%x|%x", *(*uint64)(p), *(*uint32)(unsafe.Add(p, 8)))
	case "structf":
		f := *(*float64)(p)
		if f != f {
			return -1, "NaN"
		}
		if f == 0 {
			f = 0 // -0 and +0 are the same key
		}
		sig = fmt.Sprintf("%x|%d", math.Float64bits(f+0), *(*uint8)(unsafe.Add(p, 8)))
	case "float32":
		f := *(*float32)(p)
		if f != f {
			return -1, "NaN"
		}
		if f == 0 {
			return 0, "0"
		}
		sig = fmt.Sprintf("%x", math.Float32bits(f))
	case "string":
		sig = "s" + getString(p)
	case "struct":
		sig = fmt.Sprintf("%d|%s", *(*int32)(p), getString(unsafe.Add(p, 8)))
	case "big":
		sig = fmt.Sprintf("%x|%x", *(*uint64)(p), *(*uint64)(unsafe.Add(p, 152)))
	case "iface":
		t := *(**abi.Type)(p)
		data := *(*unsafe.Pointer)(unsafe.Add(p, 8))
		switch t {
		case d.typ(tInt64):
			sig = fmt.Sprintf("i%x", *(*uint64)(data))
		case d.typ(tString):
			sig = "s" + getString(data)
		case d.typ(tFloat64):
			f := *(*float64)(data)
			if f != f {
				return -1, "NaN"
			}
			if f == 0 {
				return 7, "0"
			}
			sig = fmt.Sprintf("f%x", math.Float64bits(f))
		case d.typ(tArr2):
			sig = fmt.Sprintf("a%x", *(*uint64)(data))
		case d.typ(tPtrI):
			sig = fmt.Sprintf("p%d", (uintptr(data)-uintptr(unsafe.Pointer(&ptrCells[0])))/8)
		default:
			return -2, "unknown dynamic type"
		}
	}
	if c, ok := pool[sig]; ok {
		return c, sig
	}
	return -2, sig
}

func keySig(kt string, ki int) string {
	_, s := decodeKey(kt, encodeKey(kt, ki), map[string]int{})
	return s
}

func encodeElem(et string, v int) unsafe.Pointer {
	switch et {
	case "int64":
		b := make([]byte, 8)
		binary.LittleEndian.PutUint64(b, uint64(v))
		return unsafe.Pointer(&b[0])
	case "empty":
		b := make([]byte, 1)
		return unsafe.Pointer(&b[0])
	case "big200":
		b := make([]byte, 200)
		for i := 0; i < 25; i++ {
			binary.LittleEndian.PutUint64(b[i*8:], uint64(v)+uint64(i)*1000003)
		}
		return unsafe.Pointer(&b[0])
	case "string":
		b := make([]byte, 16)
		putString(b, "v"+strconv.Itoa(v))
		return unsafe.Pointer(&b[0])
	}
	panic("elem type")
}

// decodeElem returns the value id (0 = zero value, -1 = garbage).
func decodeElem(et string, p unsafe.Pointer) int {
	switch et {
	case "int64":
		return int(*(*int64)(p))
	case "empty":
		return 0
	case "big200":
		v := *(*uint64)(p)
		allZero := v == 0
		for i := 1; i < 25; i++ {
			x := *(*uint64)(unsafe.Add(p, i*8))
			if x != 0 {
				allZero = false
			}
			if x != v+uint64(i)*1000003 && !(v == 0 && x == 0) {
				return -1
			}
		}
		if allZero {
			return 0
		}
		return int(v)
	case "string":
		s := getString(p)
		if s == "" {
			return 0
		}
		if n, err := strconv.Atoi(strings.TrimPrefix(s, "v")); err == nil && strings.HasPrefix(s, "v") {
			return n
		}
		return -1
	}
	return -1
}

var elemSize = map[string]uintptr{"int64": 8, "empty": 0, "big200": 200, "string": 16}

// ---- model and execution --------------------------------------------------------------

type entry struct {
	ki  int
	val int
}

type iterState struct {
	it       *maprt.Iter
	done     bool
	snapshot map[string]bool         // entries present when the iterator was created
	deleted  map[string]bool         // deleted (or cleared) at some point since
	yielded  map[string]bool         // yielded and not deleted since
	held     map[string]map[int]bool // values the entry has held since the iterator began
	yields   int
	cleared  bool           // clear(m) ran since the loop began
	clearAt  int            // index of the last clear(m) since the loop began
	startBk  unsafe.Pointer // bucket arrays of the map when the loop began
	startOld unsafe.Pointer
	detached bool  // at a clear(m), a bucket array the loop began on was no longer part of the map
	sameSize bool  // a same-size grow was in progress at some step of the loop
	startB   uint8 // log2 of the bucket count when the loop began
}

func (prop) Run(scx driver.Scenario, ch *sim.Choices, keep bool) *driver.Result {
	sc := scx.(*Scenario)
	res := &driver.Result{Faults: map[string]int{}, Probes: map[string]int{}, Counters: map[string]int{}}
	var log []string
	logf := func(f string, a ...any) {
		if keep {
			log = append(log, fmt.Sprintf(f, a...))
		}
	}
	maprt.ResetArena()
	retained = nil
	garbageSeq = 0
	maprt.SetHashKey(uintptr(sc.HashKey[0]), uintptr(sc.HashKey[1]), uintptr(sc.HashKey[2]), uintptr(sc.HashKey[3]))
	nrand := 0
	maprt.Fastrand = func() uint32 {
		nrand++
		// extremes first: 0 and all-ones select the first/last bucket and offset
		switch c := ch.Choose('r', 6); c {
		case 0:
			return 0
		case 1:
			return 0xffffffff
		default:
			return uint32(ch.Choose('R', 1<<31)) * 2654435761
		}
	}
	kt, et := sc.KeyT, sc.ElemT
	// signature -> class for every key of the pool used by the scenario
	pool := map[string]int{}
	for _, op := range sc.Ops {
		if op.K == "set" || op.K == "get" || op.K == "get1" || op.K == "del" {
			if c := keyClass(kt, op.Key); c >= 0 {
				pool[keySig(kt, op.Key)] = c
			}
		}
	}
	mt := d.mapType(keyTypes[kt], elemTypes[et])
	if sc.Degen > 0 {
		// buggify: a legal hasher with very few distinct values
		cp := *mt
		real := maprt.HasherFor(mt.Key)
		m := uintptr(sc.Degen)
		cp.Hasher = func(p unsafe.Pointer, seed uintptr) uintptr { return (real(p, seed) % m) * 0x0101010101010101 }
		mt = &cp
	} else if sc.Degen < 0 {
		// buggify: a legal hasher under which runs of 24 consecutive pool keys
		// collide, so a workload can fill and drain one bucket chain after the
		// other (overflow buckets pile up while the load stays low: same-size grow)
		cp := *mt
		real := maprt.HasherFor(mt.Key)
		cp.Hasher = func(p unsafe.Pointer, seed uintptr) uintptr {
			c, _ := decodeKey(kt, p, pool)
			if c < 0 {
				return real(p, seed) // NaN and unknown keys: the real hasher (may panic for unhashable keys)
			}
			return uintptr(c/24%61) * 0x0101010101010101
		}
		mt = &cp
	}
	var h *maprt.Hmap
	if sc.Hint >= 0 {
		h = maprt.MakeMap(mt, sc.Hint)
	}
	insertedAt := map[string]int{} // entry id -> index of the op that created it
	model := map[int]*entry{}      // class -> entry
	var nans []int                 // values of the NaN-keyed entries (each insert is a new entry)
	iters := map[int]*iterState{}
	nextVal := 0
	hsum := uint64(1469598103934665603)
	mix := func(v uint64) { hsum = (hsum ^ v) * 1099511628211 }
	viol, detail := "", ""
	fail := func(c, f string, a ...any) {
		if viol == "" {
			viol, detail = c, fmt.Sprintf(f, a...)
		}
	}
	entryID := func(class, val int) string {
		if class == -1 {
			return "nan:" + strconv.Itoa(val)
		}
		return strconv.Itoa(class)
	}
	noteDelete := func(id string) {
		for _, it := range iters {
			if !it.done {
				it.deleted[id] = true
				it.yielded[id] = false
			}
		}
	}
	noteValue := func(id string, v int) {
		for _, it := range iters {
			if !it.done {
				if it.held[id] == nil {
					it.held[id] = map[int]bool{}
				}
				it.held[id][v] = true
			}
		}
	}
	maxB := uint8(0)
	grew, sameSize, evacDuringIter := 0, 0, 0
	probeState := func() {
		if h == nil {
			return
		}
		if b := h.BucketsLog2(); b > maxB {
			maxB = b
			grew++
		}
		if h.Growing() {
			if h.SameSizeGrow() {
				sameSize++
				for _, it := range iters {
					if !it.done {
						it.sameSize = true
					}
				}
			}
			for _, it := range iters {
				if !it.done {
					evacDuringIter++
					break
				}
			}
		}
	}
	// run one operation; a panic of the code under test is returned
	maprt.LoopLimit = 20_000_000
	call := func(f func()) (pv any) {
		defer func() {
			pv = recover()
			if _, hang := pv.(maprt.Hang); hang {
				if os.Getenv("VERIF_DEBUG_HANG") != "" {
					os.Stderr.Write(debug.Stack())
				}
				fail("hang", "a map operation did not finish within %d loop iterations of the map code (endless loop)", maprt.LoopLimit)
			}
		}()
		maprt.LoopIters = 0
		f()
		return nil
	}
	iterNext := func(id int, it *iterState, i int) {
		var ok bool
		var kp, vp unsafe.Pointer
		if pv := call(func() { ok, kp, vp = maprt.MapIterNext(it.it) }); pv != nil {
			fail("unexpected-panic", "op %d: range step of iterator %d panicked: %v", i, id, pv)
			return
		}
		if !ok {
			it.done = true
			logf("op %d: iterator %d ends after %d entries", i, id, it.yields)
			var missed []string
			for eid := range it.snapshot {
				if !it.deleted[eid] && !it.yielded[eid] {
					missed = append(missed, eid)
				}
			}
			sort.Strings(missed)
			if len(missed) > 0 {
				fail("range-missed-entry", "op %d: iterator %d ended without yielding entr%s %v although present during the whole loop", i, id, map[bool]string{true: "y", false: "ies"}[len(missed) == 1], missed)
				var tags []string
				onlyNaN := true
				for _, m := range missed {
					if !strings.HasPrefix(m, "nan:") {
						onlyNaN = false
					}
				}
				if onlyNaN {
					tags = append(tags, "only-nan-keyed-entries-missed")
				}
				if it.sameSize {
					tags = append(tags, "same-size-grow-during-loop")
				}
				res.Items = []driver.Item{{Tags: tags, Detail: detail}}
			}
			mix(0xe0d)
			return
		}
		it.yields++
		class, sig := decodeKey(kt, kp, pool)
		v := decodeElem(et, vp)
		logf("op %d: iterator %d yields key %s (class %d) value %d", i, id, sig, class, v)
		mix(uint64(class+5)<<20 ^ uint64(v+3))
		if class == -2 {
			fail("range-garbage-key", "op %d: iterator %d yielded a key (%s) that was never stored", i, id, sig)
			return
		}
		var eid string
		if class == -1 {
			if et == "empty" {
				return
			}
			found := false
			for _, nv := range nans {
				if nv == v {
					found = true
				}
			}
			if !found {
				fail("range-deleted-entry", "op %d: iterator %d yielded a NaN-keyed entry with value %d that is not in the map", i, id, v)
				tags := []string{"nan-key"}
				if it.cleared {
					tags = append(tags, "cleared-during-loop")
				}
				if it.detached {
					tags = append(tags, "loop-began-on-a-bucket-array-replaced-before-the-clear")
				}
				res.Items = []driver.Item{{Tags: tags, Detail: detail}}
				return
			}
			eid = entryID(-1, v)
		} else {
			e := model[class]
			if e == nil {
				fail("range-deleted-entry", "op %d: iterator %d yielded key %s which is not in the map (deleted)", i, id, sig)
				return
			}
			eid = entryID(class, 0)
			if et != "empty" && class != -1 {
				if !(it.held[eid][v]) {
					fail("range-wrong-value", "op %d: iterator %d yielded key %s with value %d, which the key never held during the loop (current %d)", i, id, sig, v, e.val)
					return
				}
			}
		}
		if it.yielded[eid] {
			fail("range-entry-twice", "op %d: iterator %d yielded entry %s twice", i, id, sig)
			var tags []string
			if it.cleared {
				tags = append(tags, "cleared-during-loop")
				if at, ok := insertedAt[eid]; ok && at > it.clearAt {
					tags = append(tags, "entry-inserted-after-the-clear")
				}
			}
			res.Items = []driver.Item{{Tags: tags, Detail: detail}}
			return
		}
		it.yielded[eid] = true
	}
	for i := range sc.Ops {
		if viol != "" {
			break
		}
		op := sc.Ops[i]
		mix(uint64(len(op.K))<<8 ^ uint64(op.Key))
		switch op.K {
		case "set":
			class := keyClass(kt, op.Key)
			nextVal++
			v := nextVal
			var ep unsafe.Pointer
			pv := call(func() { ep = maprt.MapAssign(mt, h, encodeKey(kt, op.Key)) })
			if h == nil {
				if msg, ok := maprt.IsPlainError(pv); !ok || !strings.Contains(msg, "nil map") {
					fail("nil-map-write-no-panic", "op %d: writing to a nil map did not panic with 'assignment to entry in nil map' (got %v)", i, pv)
				}
				logf("op %d: set on nil map panics: %v", i, pv)
				continue
			}
			if pv != nil {
				fail("unexpected-panic", "op %d: m[%s] = v%d panicked: %v", i, keySig(kt, op.Key), v, pv)
				continue
			}
			if sz := elemSize[et]; sz > 0 {
				copy(unsafe.Slice((*byte)(ep), sz), unsafe.Slice((*byte)(encodeElem(et, v)), sz))
			}
			logf("op %d: m[%s] = v%d", i, keySig(kt, op.Key), v)
			if class == -1 {
				nans = append(nans, v)
				insertedAt[entryID(-1, v)] = i
				noteValue(entryID(-1, v), v)
			} else {
				if e := model[class]; e != nil {
					e.val = v
				} else {
					model[class] = &entry{op.Key, v}
					insertedAt[entryID(class, 0)] = i
				}
				noteValue(entryID(class, 0), v)
			}
		case "get", "get1":
			class := keyClass(kt, op.Key)
			var ep unsafe.Pointer
			ok := false
			pv := call(func() {
				if op.K == "get" {
					ep, ok = maprt.MapAccess2(mt, h, encodeKey(kt, op.Key))
				} else {
					ep = maprt.MapAccess1(mt, h, encodeKey(kt, op.Key))
				}
			})
			if pv != nil {
				fail("unexpected-panic", "op %d: lookup of %s panicked: %v", i, keySig(kt, op.Key), pv)
				continue
			}
			got := decodeElem(et, ep)
			want, present := 0, false
			if e := model[class]; class >= 0 && e != nil {
				want, present = e.val, true
			}
			if et == "empty" {
				want = 0
			}
			logf("op %d: m[%s] -> (v%d, %v)", i, keySig(kt, op.Key), got, ok)
			mix(uint64(got + 11))
			if op.K == "get" && ok != present {
				fail("lookup-wrong-presence", "op %d: lookup of %s reported ok=%v but the key is %s", i, keySig(kt, op.Key), ok, map[bool]string{true: "present", false: "absent"}[present])
			} else if got != want {
				fail("lookup-wrong-value", "op %d: lookup of %s returned v%d, most recently stored v%d", i, keySig(kt, op.Key), got, want)
			}
		case "del":
			class := keyClass(kt, op.Key)
			if pv := call(func() { maprt.MapDelete(mt, h, encodeKey(kt, op.Key)) }); pv != nil {
				fail("unexpected-panic", "op %d: delete of %s panicked: %v", i, keySig(kt, op.Key), pv)
				continue
			}
			logf("op %d: delete(m, %s)", i, keySig(kt, op.Key))
			if class >= 0 && model[class] != nil {
				delete(model, class)
				noteDelete(entryID(class, 0))
			}
		case "clear":
			if h != nil {
				bk, old := h.BucketArrays()
				for _, it := range iters {
					if !it.done && (it.startBk != bk && it.startBk != old || it.startOld != nil && it.startOld != old && it.startOld != bk) {
						it.detached = true
					}
				}
			}
			if pv := call(func() { maprt.MapClear(mt, h) }); pv != nil {
				fail("unexpected-panic", "op %d: clear panicked: %v", i, pv)
				continue
			}
			logf("op %d: clear(m)", i)
			for _, it := range iters {
				if !it.done {
					it.cleared = true
					it.clearAt = i
				}
			}
			// (evaluated before the clear ran, see below)
			for c := range model {
				noteDelete(entryID(c, 0))
			}
			for _, nv := range nans {
				noteDelete(entryID(-1, nv))
			}
			model = map[int]*entry{}
			nans = nil
		case "len":
			n := maprt.MapLen(h)
			logf("op %d: len(m) = %d", i, n)
			if n != len(model)+len(nans) {
				fail("len-wrong", "op %d: len(m) = %d but %d entries are live", i, n, len(model)+len(nans))
			}
		case "istart":
			if h == nil && sc.Hint >= 0 {
				continue
			}
			it := &iterState{snapshot: map[string]bool{}, deleted: map[string]bool{}, yielded: map[string]bool{}, held: map[string]map[int]bool{}}
			for c, e := range model {
				id := entryID(c, 0)
				it.snapshot[id] = true
				it.held[id] = map[int]bool{e.val: true}
			}
			for _, nv := range nans {
				if et != "empty" {
					id := entryID(-1, nv)
					it.snapshot[id] = true
					it.held[id] = map[int]bool{nv: true}
				}
			}
			if pv := call(func() { it.it = maprt.NewMapIter(mt, h) }); pv != nil {
				fail("unexpected-panic", "op %d: starting a range loop panicked: %v", i, pv)
				continue
			}
			if h != nil {
				it.startB = h.BucketsLog2()
				it.startBk, it.startOld = h.BucketArrays()
			}
			iters[op.It] = it
			logf("op %d: range loop %d begins over %d entries", i, op.It, len(it.snapshot))
			res.Probes["iterators-started"]++
			// the compiled loop fetches the first entry before any user code runs
			iterNext(op.It, it, i)
		case "inext", "idrain":
			it := iters[op.It]
			if it == nil || it.done {
				continue
			}
			iterNext(op.It, it, i)
			for op.K == "idrain" && !it.done && viol == "" && it.yields < 100000 {
				iterNext(op.It, it, i)
			}
		case "idrop":
			if it := iters[op.It]; it != nil {
				it.done = true
				logf("op %d: range loop %d abandoned (break)", i, op.It)
			}
		case "setbad", "getbad", "delbad":
			pv := call(func() {
				switch op.K {
				case "setbad":
					maprt.MapAssign(mt, h, badKey())
				case "getbad":
					maprt.MapAccess2(mt, h, badKey())
				case "delbad":
					maprt.MapDelete(mt, h, badKey())
				}
			})
			logf("op %d: %s with an unhashable dynamic key: %v", i, op.K, pv)
			if op.K == "setbad" && h == nil {
				if pv == nil {
					fail("nil-map-write-no-panic", "op %d: writing to a nil map did not panic", i)
				}
				continue
			}
			if msg, ok := maprt.IsRuntimeError(pv); !ok || !strings.Contains(msg, "unhashable") {
				fail("unhashable-key-no-panic", "op %d: %s with a slice held in an interface as key did not panic with a 'hash of unhashable type' run-time error (got %v)", i, op.K, pv)
			}
			res.Probes["unhashable-key-panics"]++
		}
		if keep && h != nil && os.Getenv("VERIF_DEBUG_MAP") != "" {
			logf("    [B=%d growing=%v samesize=%v noverflow=%d len=%d]", h.BucketsLog2(), h.Growing(), h.SameSizeGrow(), h.NOverflow(), maprt.MapLen(h))
		}
		if len(maprt.Fatal) > 0 {
			fail("runtime-fatal", "op %d: the map runtime reported %q in single-threaded use", i, maprt.Fatal[0])
		}
		probeState()
	}
	// final cross-check of the whole map against the model
	if viol == "" && h != nil {
		if n := maprt.MapLen(h); n != len(model)+len(nans) {
			fail("len-wrong", "at the end len(m) = %d but %d entries are live", n, len(model)+len(nans))
		}
		var cs []int
		for c := range model {
			cs = append(cs, c)
		}
		sort.Ints(cs)
		for _, c := range cs {
			e := model[c]
			var ep unsafe.Pointer
			ok := false
			if pv := call(func() { ep, ok = maprt.MapAccess2(mt, h, encodeKey(kt, e.ki)) }); pv != nil {
				fail("unexpected-panic", "final lookup of %s panicked: %v", keySig(kt, e.ki), pv)
				break
			}
			if !ok {
				fail("lookup-wrong-presence", "at the end key %s is missing from the map", keySig(kt, e.ki))
				break
			}
			if got := decodeElem(et, ep); et != "empty" && got != e.val {
				fail("lookup-wrong-value", "at the end key %s maps to v%d, most recently stored v%d", keySig(kt, e.ki), got, e.val)
				break
			}
		}
	}
	res.Violation, res.Detail = viol, detail
	res.Choices = ch.Rec
	res.Diverged = ch.Diverged
	res.TraceHash = hsum
	res.Steps = len(sc.Ops)
	res.SimTime = int64(len(sc.Ops))
	res.Faults["degenerate-hasher-runs"] = b2i(sc.Degen > 0)
	res.Probes["growths"] = grew
	res.Probes["same-size-grow-steps"] = sameSize
	res.Probes["steps-with-evacuation-pending-during-iteration"] = evacDuringIter
	res.Probes["fastrand-draws"] = nrand
	res.Probes["max-B-"+strconv.Itoa(int(maxB))] = 1
	if h != nil && h.NOverflow() > 0 {
		res.Probes["runs-with-overflow-buckets"] = 1
	}
	res.Probes["keytype-"+kt] = 1
	res.Probes["elemtype-"+et] = 1
	res.Nontrivial = grew > 0 || sameSize > 0 || evacDuringIter > 0
	res.StateHash = hsum ^ uint64(len(model))
	if keep {
		res.Log = append(log, fmt.Sprintf("end: %d ops, map[%s]%s, hint %d, degenerate hasher %d; outcome: %s %s", len(sc.Ops), kt, et, sc.Hint, sc.Degen, viol, detail))
	}
	return res
}

func b2i(b bool) int {
	if b {
		return 1
	}
	return 0
}

// ---- shrinking --------------------------------------------------------------------------

func (prop) Shrink(scx driver.Scenario) []driver.Scenario {
	sc := scx.(*Scenario)
	var out []driver.Scenario
	cp := func() *Scenario {
		c := *sc
		c.Ops = append([]Op{}, sc.Ops...)
		return &c
	}
	n := len(sc.Ops)
	for chunk := n / 2; chunk >= 1; chunk /= 2 {
		for i := 0; i+chunk <= n; i += chunk {
			c := cp()
			c.Ops = append(c.Ops[:i:i], sc.Ops[i+chunk:]...)
			out = append(out, c)
		}
		if len(out) > 400 {
			break
		}
	}
	if sc.Degen > 1 {
		c := cp()
		c.Degen = 1
		out = append(out, c)
	}
	if sc.Hint > 0 {
		c := cp()
		c.Hint = 0
		out = append(out, c)
	}
	if sc.ElemT != "int64" {
		c := cp()
		c.ElemT = "int64"
		out = append(out, c)
	}
	return out
}

func (prop) Describe() driver.Description {
	li := append([][2]string{}, maprt.LiftInfo...)
	li = append(li, ssaabi.LiftInfo...)
	li = append(li, abi.LiftInfo...)
	return driver.Description{
		Rule: "a case is one history of 5-6000 map operations (insert/update, lookup, delete, clear, len, and the steps of up to three live range loops interleaved with the mutations) on one map[K]V with K in {int64, int8, string, float64 incl. +-0 and NaN, [2]int32, struct{int32;string}, interface{} with mixed dynamic types incl. an unhashable one, [20]int64} and V in {int64, struct{}, [25]int64, string}, with every random draw of the map code (hash seed, iteration start bucket and offset) chosen by the simulator and, in some runs, a legal but degenerate hasher; " +
			"non-trivial: the history crossed at least one growth, or a same-size grow, or had an evacuation pending while a range loop was live; distinct = distinct hash of the (operation, result) sequence",
		Components: []driver.Component{
			{Name: "runtime/internal/runtime/map.go, z_map.go, alg.go, hash64.go, type.go, stubs.go", Real: true, What: "lifted verbatim from the working tree"},
			{Name: "ssa/abi (Size, TFlag, Kind, EqualName, PtrBytes, MapBucketType, MapTypeFlags)", Real: true, What: "lifted; computes the type-descriptor fields from go/types as the compiler does"},
			{Name: "runtime/abi, internal/runtime/goarch, internal/runtime/math", Real: true, What: "lifted unchanged"},
			{Name: "descriptor assembly (ssa/abitype.go abiCommonFields/abiExtendedFields)", Real: false, What: "re-implemented in the harness: fills abi.Type/MapType structures from the ssa/abi results instead of emitting LLVM constants"},
			{Name: "fastrand (C.rand), hashkey initialisation", Real: false, What: "seam: every value supplied and recorded by the simulator"},
			{Name: "allocation (AllocZ), Typedmemmove", Real: false, What: "Go equivalents; arenas stay reachable for the whole run"},
			{Name: "compiler lowering of map operations (ssa/datastruct.go, ssa/expr.go)", Real: false, What: "not run; the harness calls the runtime entry points the lowering calls"},
		},
		Assumptions: []string{
			"claim is scoped to the run-time library plus descriptor computation; the LLVM lowering of map operations is not exercised",
			"the lifted sources compiled by the standard Go compiler behave like the same sources compiled by llgo",
			"type sizes from go/types SizesFor(gc, amd64) stand in for the LLVM target data layout",
		},
		LiftInfo:   li,
		FaultKinds: []string{"degenerate-hasher-runs"},
	}
}

var _ = json.Marshal

func main() { driver.Main(prop{}) }
