// Layer B, second program: interface keys whose first conversion races.
//
// The only clause of C06 that meets threads: a map keyed by a non-empty
// interface type compares the method tables (itabs) of its keys, and a method
// table is created by the first conversion of a concrete type to the interface.
// When several goroutines perform that first conversion at the same time, equal
// values must still be one key.  The program is compiled by the real llgo and
// run under the deterministic pthread scheduler of C10/C11 layer B
// (toolchain/libdetsched.c): every lock operation of the run-time library is a
// scheduling point and the schedule is a function of one seed.
package main

import (
	"bytes"
	"encoding/json"
	"fmt"
	"os"
	"os/exec"
	"path/filepath"
	"strconv"
	"strings"
	"time"

	"verif/driver"
	"verif/sim"
)

var bSchedLib = os.Getenv("VERIF_B_SCHEDLIB")

const ifaceRaceTypes, ifaceRaceGor = 6, 3

func ifaceRaceSrc() string {
	var sb strings.Builder
	sb.WriteString("package main\n\nimport \"sync\"\n\ntype I interface{ M() int }\n\ntype J interface {\n\tM() int\n\tN() int\n}\n\n")
	for k := 0; k < ifaceRaceTypes; k++ {
		fmt.Fprintf(&sb, "type T%d struct{ v int }\n\nfunc (t T%d) M() int { return t.v }\nfunc (t T%d) N() int { return -t.v }\n\n//go:noinline\nfunc convI%d(v int) I { return T%d{v} }\n\n//go:noinline\nfunc convJ%d(v int) J { return T%d{v} }\n\n", k, k, k, k, k, k, k)
	}
	sb.WriteString("func main() {\n\tvar wg sync.WaitGroup\n")
	for k := 0; k < ifaceRaceTypes; k++ {
		fmt.Fprintf(&sb, "\t{\n\t\tri := make([]I, %d)\n\t\trj := make([]J, %d)\n\t\tfor g := 0; g < %d; g++ {\n\t\t\twg.Add(1)\n\t\t\tgo func(g int) {\n\t\t\t\tri[g] = convI%d(7)\n\t\t\t\trj[g] = convJ%d(7)\n\t\t\t\twg.Done()\n\t\t\t}(g)\n\t\t}\n\t\twg.Wait()\n", ifaceRaceGor, ifaceRaceGor, ifaceRaceGor, k, k)
		fmt.Fprintf(&sb, "\t\tmi := map[I]int{}\n\t\tmj := map[J]int{}\n\t\tma := map[any]int{}\n\t\tfor g := range ri {\n\t\t\tmi[ri[g]]++\n\t\t\tmj[rj[g]]++\n\t\t\tma[ri[g]]++\n\t\t}\n")
		fmt.Fprintf(&sb, "\t\tprintln(\"G type\", %d, \"I\", len(mi), mi[convI%d(7)], \"J\", len(mj), mj[convJ%d(7)], \"any\", len(ma), ma[T%d{7}])\n\t}\n", k, k, k, k)
	}
	sb.WriteString("}\n")
	return sb.String()
}

func ifaceRaceExpect() []string {
	var e []string
	for k := 0; k < ifaceRaceTypes; k++ {
		e = append(e, fmt.Sprintf("G type %d I 1 %d J 1 %d any 1 %d", k, ifaceRaceGor, ifaceRaceGor, ifaceRaceGor))
	}
	return e
}

func runSched(bin string, seed uint64) (string, string) {
	cmd := exec.Command("/usr/bin/setarch", "x86_64", "-R", bin)
	if _, err := os.Stat("/usr/bin/setarch"); err != nil {
		cmd = exec.Command(bin)
	}
	cmd.Env = []string{"LD_PRELOAD=" + bSchedLib, "VERIF_SEED=" + strconv.FormatUint(seed, 10), "VERIF_SPURIOUS=20", "GC_DONT_GC=1", "GC_MARKERS=1", "VERIF_MAX_STEPS=300000"}
	var buf bytes.Buffer
	cmd.Stdout, cmd.Stderr = &buf, &buf
	if err := cmd.Start(); err != nil {
		return err.Error(), "crash"
	}
	done := make(chan error, 1)
	go func() { done <- cmd.Wait() }()
	var err error
	select {
	case err = <-done:
	case <-time.After(60 * time.Second):
		cmd.Process.Kill()
		<-done
		return buf.String(), "timeout"
	}
	out := buf.String()
	switch {
	case strings.Contains(out, "QUIESCENT"):
		return out, "quiescent"
	case strings.Contains(out, "STEPCAP"):
		return out, "stepcap"
	case err != nil:
		return out, "crash"
	}
	return out, "main-exit"
}

func judgeIfaceRace(out, end string) (string, string) {
	switch end {
	case "timeout":
		return "", "" // wall-clock trouble on a loaded machine: counted by the caller, never a violation
	case "crash", "quiescent", "stepcap":
		return "compiled-program-failed", "interface-key program ended with " + end + ": " + tailStr(out, 300)
	}
	got := map[string]bool{}
	for _, l := range strings.Split(out, "\n") {
		if strings.HasPrefix(l, "G ") {
			got[strings.TrimSpace(l)] = true
		}
	}
	for _, e := range ifaceRaceExpect() {
		if !got[e] {
			for l := range got {
				if strings.HasPrefix(l, e[:9]) {
					return "equal-interface-keys-split", fmt.Sprintf("%d goroutines converted equal values of one concrete type to an interface type for the first time concurrently and used them as map keys: expected %q (one key, found by a lookup with a fresh conversion), the program printed %q", ifaceRaceGor, e, l)
				}
			}
			return "compiled-program-failed", "interface-key program did not print " + e + ": " + tailStr(out, 300)
		}
	}
	return "", ""
}

func tailStr(s string, n int) string {
	if len(s) > n {
		return s[len(s)-n:]
	}
	return s
}

type bSchedReplay struct {
	Layer   string `json:"layer"` // "B-sched"
	Program string `json:"program"`
	Seed    uint64 `json:"sched_seed"`
	Class   string `json:"violation_class"`
	Detail  string `json:"detail"`
	Output  string `json:"output"`
}

func buildSchedProgram(dir string) (string, error) {
	os.MkdirAll(dir, 0o755)
	os.WriteFile(filepath.Join(dir, "go.mod"), []byte("module progs\n\ngo 1.23\n"), 0o644)
	os.WriteFile(filepath.Join(dir, "main.go"), []byte(ifaceRaceSrc()), 0o644)
	bin := filepath.Join(dir, "prog.out")
	cmd := exec.Command(bLlgo, "build", "-O0", "-o", bin, ".")
	cmd.Dir = dir
	cmd.Env = bEnv()
	if out, err := cmd.CombinedOutput(); err != nil {
		return "", fmt.Errorf("llgo build of the interface-key program failed: %v\n%s", err, tailStr(string(out), 1500))
	}
	return bin, nil
}

// ifaceRacePhase runs the program under nsched seeded schedules (at least
// minSched however late it is) and appends what it finds to er.
func ifaceRacePhase(er *driver.ExtraResult, tier string, seed uint64, deadline time.Time) error {
	if bSchedLib == "" {
		er.Coverage["interface_key_race"] = "skipped: the deterministic pthread scheduler could not be built here"
		return nil
	}
	dir := filepath.Join(bTmp, "ifacerace")
	defer os.RemoveAll(dir)
	bin, err := buildSchedProgram(dir)
	if err != nil {
		return err
	}
	nsched, minSched := 150, 60
	if tier == "thorough" {
		nsched = 3000
	}
	runs, timeouts, det := 0, 0, 0
	outs := map[string]bool{}
	for i := 0; i < nsched && (i < minSched || time.Now().Before(deadline)); i++ {
		s := sim.RunSeed(seed^0xc06c, uint64(i))
		out, end := runSched(bin, s)
		runs++
		if end == "timeout" {
			timeouts++
			continue
		}
		outs[out] = true
		if i%25 == 0 {
			if out2, end2 := runSched(bin, s); end2 != "timeout" {
				if out2 != out {
					return fmt.Errorf("layer B (interface keys): schedule seed %d printed different outputs in two processes", s)
				}
				det++
			}
		}
		cls, detail := judgeIfaceRace(out, end)
		if cls != "" {
			if out2, _ := runSched(bin, s); out2 != out {
				return fmt.Errorf("layer B (interface keys): the violating schedule %d does not replay", s)
			}
			rp := bSchedReplay{Layer: "B-sched", Program: "iface-key-race", Seed: s, Class: cls, Detail: detail, Output: tailStr(out, 3000)}
			b, _ := json.MarshalIndent(rp, "", " ")
			er.Violations = append(er.Violations, driver.ExtraViolation{Class: cls, Detail: "[compiled program under the deterministic pthread scheduler, schedule seed " + strconv.FormatUint(s, 10) + "] " + detail, Name: fmt.Sprintf("BS-%d", i), Replay: b})
			break
		}
	}
	er.Evaluations += runs
	er.Coverage["interface_key_race"] = map[string]any{"schedules_run": runs, "wall_clock_timeouts": timeouts, "distinct_outputs": len(outs), "schedules_run_twice_with_identical_output": det,
		"what": fmt.Sprintf("%d concrete types x %d goroutines performing the first conversion to two interface types concurrently; the values are keys of map[I]int, map[J]int and map[any]int; real: llgo-compiled runtime (itab table, interface hashing and equality), compiler lowering; stub: pthread layer (deterministic scheduler, scheduling points at lock operations only)", ifaceRaceTypes, ifaceRaceGor)}
	return nil
}

func replaySched(raw []byte) (string, string, error) {
	var rp bSchedReplay
	if err := json.Unmarshal(raw, &rp); err != nil {
		return "", "", err
	}
	if bLlgo == "" || bSchedLib == "" {
		return "", "", fmt.Errorf("llgo or the deterministic scheduler could not be built here: layer B replays are not available")
	}
	dir := filepath.Join(bTmp, "replay-ifacerace")
	defer os.RemoveAll(dir)
	bin, err := buildSchedProgram(dir)
	if err != nil {
		return "", "", err
	}
	out, end := runSched(bin, rp.Seed)
	fmt.Print(out)
	cls, det := judgeIfaceRace(out, end)
	return cls, det, nil
}
