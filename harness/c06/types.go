package main

// Type descriptors for the catalogue of key/elem types, computed from go/types
// by the lifted compiler-side package ssa/abi (sizes, flags, kinds, equality
// function names, bucket layout, map flags) and assembled into runtime abi
// structures the way ssa/abitype.go's abiCommonFields/abiExtendedFields do.

import (
	"go/token"
	"go/types"
	"unsafe"

	"verif/lifted/abi"
	"verif/lifted/maprt"
	"verif/lifted/ssaabi"
)

type descs struct {
	b     *ssaabi.Builder
	sizes types.Sizes
	memo  map[string]*abi.Type
}

func newDescs() *descs {
	d := &descs{sizes: types.SizesFor("gc", "amd64"), memo: map[string]*abi.Type{}}
	d.b = ssaabi.New(8, d.sizes)
	return d
}

func (d *descs) common(t types.Type, out *abi.Type) {
	b := d.b
	out.Size_ = b.Size(t)
	out.PtrBytes = b.PtrBytes(t)
	out.TFlag = b.TFlag(t)
	out.Align_ = uint8(b.Align(t))
	out.FieldAlign_ = uint8(b.FieldAlign(t))
	k := uint8(b.Kind(t))
	if ssaabi.DirectIfaceType(t) {
		k |= abi.KindDirectIface
	}
	out.Kind_ = k
	out.Str_ = b.Str(t)
	out.Equal = maprt.EqualByName(b.EqualName(t), out)
}

func (d *descs) typ(t types.Type) *abi.Type {
	key := t.String()
	if r, ok := d.memo[key]; ok {
		return r
	}
	switch u := types.Unalias(t).(type) {
	case *types.Basic:
		r := &abi.Type{}
		d.memo[key] = r
		d.common(t, r)
		return r
	case *types.Pointer:
		r := &abi.PtrType{}
		d.memo[key] = &r.Type
		d.common(t, &r.Type)
		r.Elem = d.typ(u.Elem())
		return &r.Type
	case *types.Slice:
		r := &abi.SliceType{}
		d.memo[key] = &r.Type
		d.common(t, &r.Type)
		r.Elem = d.typ(u.Elem())
		return &r.Type
	case *types.Array:
		r := &abi.ArrayType{}
		d.memo[key] = &r.Type
		d.common(t, &r.Type)
		r.Elem = d.typ(u.Elem())
		r.Slice = d.typ(types.NewSlice(u.Elem()))
		r.Len = uintptr(u.Len())
		return &r.Type
	case *types.Struct:
		r := &abi.StructType{}
		d.memo[key] = &r.Type
		d.common(t, &r.Type)
		var fs []*types.Var
		for i := 0; i < u.NumFields(); i++ {
			fs = append(fs, u.Field(i))
		}
		offs := d.sizes.Offsetsof(fs)
		for i, f := range fs {
			r.Fields = append(r.Fields, abi.StructField{Name_: f.Name(), Typ: d.typ(f.Type()), Offset: uintptr(offs[i])})
		}
		return &r.Type
	case *types.Interface:
		r := &abi.InterfaceType{}
		d.memo[key] = &r.Type
		d.common(t, &r.Type)
		return &r.Type
	case *types.Map:
		r := &abi.MapType{}
		d.memo[key] = &r.Type
		d.common(t, &r.Type)
		bucket := d.b.MapBucket(u)
		r.Key = d.typ(u.Key())
		r.Elem = d.typ(u.Elem())
		r.Bucket = d.typ(bucket)
		r.Hasher = maprt.HasherFor(r.Key)
		// slot sizes: indirect keys/elems occupy a pointer (mirrors ssa/abitype.go)
		ks, es := d.b.Size(u.Key()), d.b.Size(u.Elem())
		if ks > ssaabi.MAXKEYSIZE {
			ks = d.b.Size(types.Typ[types.UnsafePointer])
		}
		if es > ssaabi.MAXELEMSIZE {
			es = d.b.Size(types.Typ[types.UnsafePointer])
		}
		r.KeySize = uint8(ks)
		r.ValueSize = uint8(es)
		r.BucketSize = uint16(d.b.Size(bucket))
		r.Flags = uint32(d.b.MapFlags(u))
		return &r.Type
	}
	panic("descs: unsupported type " + t.String())
}

func (d *descs) mapType(k, e types.Type) *abi.MapType {
	return (*abi.MapType)(unsafe.Pointer(d.typ(types.NewMap(k, e))))
}

var (
	tInt64   = types.Typ[types.Int64]
	tInt32   = types.Typ[types.Int32]
	tInt8    = types.Typ[types.Int8]
	tString  = types.Typ[types.String]
	tFloat64 = types.Typ[types.Float64]
	tFloat32 = types.Typ[types.Float32]
	tArr2    = types.NewArray(tInt32, 2)
	tArr3    = types.NewArray(tInt32, 3)
	tC128    = types.Typ[types.Complex128]
	tStructF = types.NewStruct([]*types.Var{types.NewField(token.NoPos, nil, "F", tFloat64, false), types.NewField(token.NoPos, nil, "N", tInt8, false)}, nil)
	tStruct  = types.NewStruct([]*types.Var{types.NewField(token.NoPos, nil, "A", tInt32, false), types.NewField(token.NoPos, nil, "B", tString, false)}, nil)
	tEface   = types.NewInterfaceType(nil, nil)
	tBigKey  = types.NewArray(tInt64, 20) // 160 bytes: stored indirectly
	tEmpty   = types.NewStruct(nil, nil)
	tBig200  = types.NewArray(tInt64, 25) // 200 bytes: stored indirectly
	tSliceI  = types.NewSlice(tInt64)
	tPtrI    = types.NewPointer(tInt64)
)

func init() { tEface.Complete() }

var keyTypes = map[string]types.Type{"int64": tInt64, "int8": tInt8, "string": tString, "float64": tFloat64, "float32": tFloat32, "complex128": tC128, "arr3i32": tArr3, "structf": tStructF, "arr2i32": tArr2, "struct": tStruct, "iface": tEface, "big": tBigKey}
var elemTypes = map[string]types.Type{"int64": tInt64, "empty": tEmpty, "big200": tBig200, "string": tString}
