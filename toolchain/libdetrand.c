/* libdetrand: LD_PRELOAD replacement of C rand() for llgo-compiled programs.
 * The llgo runtime draws its hash key material (at start-up) and the start
 * bucket and offset of every map range loop from C rand(); this makes those
 * draws a function of VERIF_RAND_SEED, with the extreme values over-represented
 * (first/last bucket, first/last slot). */
#include <stdlib.h>

static unsigned long long s;
static int ready;

int rand(void) {
	if (!ready) {
		const char *e = getenv("VERIF_RAND_SEED");
		s = e ? strtoull(e, 0, 10) : 0x9E3779B97F4A7C15ULL;
		if (!s) s = 1;
		ready = 1;
	}
	s ^= s << 13; s ^= s >> 7; s ^= s << 17;
	switch ((s >> 40) % 6) {
	case 0: return 0;
	case 1: return RAND_MAX;
	default: return (int)((s >> 16) & 0x7fffffff);
	}
}
