/* libdetsched: a deterministic pthread scheduler for compiled llgo programs,
 * loaded with LD_PRELOAD.  Every thread of the process is serialised on one
 * baton; at each intercepted synchronisation call (thread create, mutex lock,
 * cond wait/signal/broadcast, once, semaphore wait/post, sched_yield) the
 * running thread reaches a scheduling point and a PRNG seeded from VERIF_SEED
 * decides which runnable thread continues, which waiter a signal wakes, and
 * whether a condition-variable waiter wakes spuriously.  One seed is one exactly
 * repeatable execution.  Mutexes, condition variables, once controls and
 * semaphores are simulated (keyed by address); the real primitives are used
 * only to park and release threads one at a time.
 *
 * Threads never exit: when a start routine returns, the thread is marked done,
 * passes the baton and parks for good (TLS destructors that take locks would
 * otherwise run outside the scheduler).  When no thread is runnable the
 * process prints a QUIESCENT line (listing blocked threads) and exits 0.
 *
 * Thread resources are simulated as well: a thread holds one unit from its
 * creation until its start routine has returned AND it has been detached or
 * joined (what the kernel does with the stack of a real thread).  With
 * VERIF_MAX_THREADS=n, pthread_create fails with EAGAIN while n units are held,
 * as it does at RLIMIT_NPROC / vm.max_map_count; with VERIF_FAIL_CREATE=k the
 * k-th pthread_create of the process fails with EAGAIN (injected fault).  Each
 * refusal is reported on standard error ("FAULT pthread_create ...").
 *
 * Environment: VERIF_SEED (decimal), VERIF_SPURIOUS (per-mille probability of a
 * spurious wake-up per scheduling step), VERIF_SCHED_LOG (file: one line per
 * scheduling decision, for determinism checks), VERIF_MAX_STEPS (default 200000),
 * VERIF_MAX_THREADS, VERIF_FAIL_CREATE.
 */
#define _GNU_SOURCE
#include <dlfcn.h>
#include <errno.h>
#include <pthread.h>
#include <semaphore.h>
#include <stdint.h>
#include <stdio.h>
#include <stdlib.h>
#include <string.h>
#include <unistd.h>
#include <fcntl.h>
#include <time.h>

#define MAXTH 2048
#define MAXOBJ 4096

enum { ST_RUN = 0, ST_MUTEX, ST_COND, ST_ONCE, ST_SEM, ST_JOIN, ST_DONE };

typedef struct {
	int used, id, state;
	pthread_t tid;
	sem_t run; /* real semaphore this thread parks on */
	void *waitobj;
	void *(*fn)(void *);
	void *arg;
	void *ret;
	int woken; /* cond waiter: has been signalled */
	int released; /* detached or joined */
} Th;

typedef struct {
	void *addr;
	int kind; /* 1 mutex 2 cond 3 once 4 sem */
	int locked, owner;
	int count;     /* sem value */
	int oncestate; /* 0 fresh 1 running 2 done */
} Obj;

static Th ths[MAXTH];
static int nth;
static Obj objs[MAXOBJ];
static int nobj;
static __thread int me = -1;
static int cur = -1;
static int inited;
static uint64_t rng[4];
static long steps, maxsteps = 200000;
static int spurious_pm;
static int logfd = -1;
static int active; /* scheduler engaged (after first pthread_create) */
static int max_threads, fail_create, ncreate;

static int (*real_sem_wait)(sem_t *);
static int (*real_sem_post)(sem_t *);
static int (*real_sem_init)(sem_t *, int, unsigned);
static int (*real_pthread_create)(pthread_t *, const pthread_attr_t *, void *(*)(void *), void *);

static uint64_t splitmix(uint64_t *x) {
	uint64_t z = (*x += 0x9e3779b97f4a7c15ULL);
	z = (z ^ (z >> 30)) * 0xbf58476d1ce4e5b9ULL;
	z = (z ^ (z >> 27)) * 0x94d049bb133111ebULL;
	return z ^ (z >> 31);
}
static uint64_t rotl(uint64_t x, int k) { return (x << k) | (x >> (64 - k)); }
static uint64_t rnd(void) {
	uint64_t r = rotl(rng[1] * 5, 7) * 9, t = rng[1] << 17;
	rng[2] ^= rng[0]; rng[3] ^= rng[1]; rng[1] ^= rng[2]; rng[0] ^= rng[3];
	rng[2] ^= t; rng[3] = rotl(rng[3], 45);
	return r;
}

static void logline(const char *fmt, long a, long b, long c) {
	if (logfd < 0) return;
	char buf[128];
	int n = snprintf(buf, sizeof buf, fmt, a, b, c);
	if (n > 0) { ssize_t w = write(logfd, buf, n); (void)w; }
}

static void init(void) {
	if (inited) return;
	inited = 1;
	real_sem_wait = dlsym(RTLD_NEXT, "sem_wait");
	real_sem_post = dlsym(RTLD_NEXT, "sem_post");
	real_sem_init = dlsym(RTLD_NEXT, "sem_init");
	real_pthread_create = dlsym(RTLD_NEXT, "pthread_create");
	uint64_t seed = 1;
	const char *s = getenv("VERIF_SEED");
	if (s) seed = strtoull(s, 0, 10);
	for (int i = 0; i < 4; i++) rng[i] = splitmix(&seed);
	s = getenv("VERIF_SPURIOUS");
	if (s) spurious_pm = atoi(s);
	s = getenv("VERIF_MAX_STEPS");
	if (s) maxsteps = atol(s);
	s = getenv("VERIF_SCHED_LOG");
	if (s) logfd = open(s, O_WRONLY | O_CREAT | O_TRUNC, 0644);
	s = getenv("VERIF_MAX_THREADS");
	if (s) max_threads = atoi(s);
	s = getenv("VERIF_FAIL_CREATE");
	if (s) fail_create = atoi(s);
	/* the initial thread is thread 0 and holds the baton */
	memset(&ths[0], 0, sizeof ths[0]);
	ths[0].used = 1; ths[0].id = 0; ths[0].state = ST_RUN; ths[0].tid = pthread_self();
	real_sem_init(&ths[0].run, 0, 0);
	nth = 1; me = 0; cur = 0;
}

static Obj *obj(void *addr, int kind) {
	for (int i = 0; i < nobj; i++)
		if (objs[i].addr == addr && objs[i].kind == kind) return &objs[i];
	if (nobj == MAXOBJ) { dprintf(2, "DETSCHED: object table full\n"); _exit(98); }
	Obj *o = &objs[nobj++];
	memset(o, 0, sizeof *o);
	o->addr = addr; o->kind = kind; o->owner = -1;
	return o;
}
static void dropobj(void *addr, int kind) {
	for (int i = 0; i < nobj; i++)
		if (objs[i].addr == addr && objs[i].kind == kind) { objs[i] = objs[--nobj]; return; }
}

static void quiescent(void) {
	char buf[2048]; int n = 0;
	n += snprintf(buf + n, sizeof buf - n, "QUIESCENT steps=%ld blocked:", steps);
	for (int i = 0; i < nth; i++)
		if (ths[i].state != ST_DONE && ths[i].state != ST_RUN)
			n += snprintf(buf + n, sizeof buf - n, " t%d(%s)", i,
				ths[i].state == ST_MUTEX ? "mutex" : ths[i].state == ST_COND ? "cond" : ths[i].state == ST_SEM ? "sem" : ths[i].state == ST_ONCE ? "once" : "join");
	n += snprintf(buf + n, sizeof buf - n, "\n");
	ssize_t w = write(2, buf, n); (void)w;
	_exit(0);
}

/* pick the next thread to run and transfer the baton to it; returns when this
 * thread is scheduled again (immediately if it is chosen itself) */
static void reschedule(void) {
	if (++steps > maxsteps) { dprintf(2, "STEPCAP steps=%ld\n", steps); _exit(97); }
	/* spurious wake-up of one condition-variable waiter */
	if (spurious_pm > 0 && (int)(rnd() % 1000) < spurious_pm) {
		int cw[MAXTH], nc = 0;
		for (int i = 0; i < nth; i++) if (ths[i].state == ST_COND) cw[nc++] = i;
		if (nc > 0) {
			int v = cw[rnd() % nc];
			ths[v].state = ST_RUN;
			logline("spurious t%ld\n", v, 0, 0);
		}
	}
	int run[MAXTH], nr = 0;
	for (int i = 0; i < nth; i++) if (ths[i].state == ST_RUN) run[nr++] = i;
	if (nr == 0) quiescent();
	int next = run[rnd() % nr];
	logline("step %ld: t%ld -> t%ld\n", steps, me, next);
	if (next == me) return;
	int self = me;
	cur = next;
	real_sem_post(&ths[next].run);
	real_sem_wait(&ths[self].run);
}

static void point(void) {
	if (!active) return;
	reschedule();
}

static void block(int st, void *o) {
	ths[me].state = st;
	ths[me].waitobj = o;
	reschedule();
}

static void wake_all(int st, void *o) {
	for (int i = 0; i < nth; i++)
		if (ths[i].state == st && ths[i].waitobj == o) ths[i].state = ST_RUN;
}

/* ---- threads ------------------------------------------------------------------ */

static void *trampoline(void *p) {
	Th *t = p;
	me = t->id;
	real_sem_wait(&t->run); /* wait for the baton */
	t->ret = t->fn(t->arg);
	t->state = ST_DONE;
	wake_all(ST_JOIN, t);
	reschedule(); /* never returns here: a done thread is never chosen */
	for (;;) pause();
	return 0;
}

int pthread_create(pthread_t *th, const pthread_attr_t *attr, void *(*fn)(void *), void *arg) {
	init();
	active = 1;
	ncreate++;
	if (fail_create && ncreate == fail_create) {
		dprintf(2, "FAULT pthread_create #%d -> EAGAIN (injected)\n", ncreate);
		point();
		return EAGAIN;
	}
	if (max_threads) {
		int held = 0;
		for (int i = 1; i < nth; i++)
			if (!(ths[i].state == ST_DONE && ths[i].released)) held++;
		if (held >= max_threads) {
			dprintf(2, "FAULT pthread_create #%d -> EAGAIN (%d threads hold resources: finished threads are neither detached nor joined)\n", ncreate, held);
			point();
			return EAGAIN;
		}
	}
	if (nth == MAXTH) { dprintf(2, "DETSCHED: thread table full\n"); _exit(98); }
	Th *t = &ths[nth];
	memset(t, 0, sizeof *t);
	t->used = 1; t->id = nth; t->state = ST_RUN; t->fn = fn; t->arg = arg;
	real_sem_init(&t->run, 0, 0);
	nth++;
	if (attr) {
		int ds = 0;
		if (pthread_attr_getdetachstate(attr, &ds) == 0 && ds == PTHREAD_CREATE_DETACHED) t->released = 1;
	}
	int rc = real_pthread_create(&t->tid, attr, trampoline, t);
	if (rc != 0) { nth--; return rc; }
	if (th) *th = t->tid;
	point(); /* the child may run first */
	return 0;
}

int pthread_join(pthread_t th, void **ret) {
	init();
	for (int i = 0; i < nth; i++)
		if (pthread_equal(ths[i].tid, th)) {
			point();
			while (ths[i].state != ST_DONE) block(ST_JOIN, &ths[i]);
			if (ret) *ret = ths[i].ret;
			ths[i].released = 1;
			return 0;
		}
	return ESRCH;
}

int pthread_detach(pthread_t th) {
	init();
	for (int i = 0; i < nth; i++)
		if (pthread_equal(ths[i].tid, th)) { ths[i].released = 1; return 0; }
	return ESRCH;
}

int sched_yield(void) { init(); point(); return 0; }

/* ---- mutex ---------------------------------------------------------------------- */

int pthread_mutex_init(pthread_mutex_t *m, const pthread_mutexattr_t *a) {
	(void)a; init(); dropobj(m, 1); memset(m, 0, sizeof *m); return 0;
}
int pthread_mutex_destroy(pthread_mutex_t *m) { init(); dropobj(m, 1); return 0; }

int pthread_mutex_lock(pthread_mutex_t *m) {
	init();
	point();
	Obj *o = obj(m, 1);
	if (o->locked && o->owner == me) { o->count++; return 0; } /* recursive use (libgc, libc) */
	while (o->locked) {
		if (!active) { dprintf(2, "DETSCHED: mutex held before any thread exists\n"); _exit(98); }
		block(ST_MUTEX, m);
		o = obj(m, 1);
	}
	o->locked = 1; o->owner = me;
	return 0;
}
int pthread_mutex_trylock(pthread_mutex_t *m) {
	init();
	point();
	Obj *o = obj(m, 1);
	if (o->locked) return EBUSY;
	o->locked = 1; o->owner = me;
	return 0;
}
int pthread_mutex_unlock(pthread_mutex_t *m) {
	init();
	Obj *o = obj(m, 1);
	if (o->count > 0) { o->count--; return 0; }
	o->locked = 0; o->owner = -1;
	wake_all(ST_MUTEX, m);
	point(); /* a thread that was waiting for the mutex may run first */
	return 0;
}

/* ---- condition variables ------------------------------------------------------------ */

int pthread_cond_init(pthread_cond_t *c, const pthread_condattr_t *a) { (void)a; init(); memset(c, 0, sizeof *c); return 0; }
int pthread_cond_destroy(pthread_cond_t *c) { (void)c; return 0; }

int pthread_cond_wait(pthread_cond_t *c, pthread_mutex_t *m) {
	init();
	point();
	/* unlock and start waiting atomically (no scheduling point in between) */
	Obj *mo = obj(m, 1);
	if (mo->count > 0) mo->count = 0;
	mo->locked = 0; mo->owner = -1;
	wake_all(ST_MUTEX, m);
	block(ST_COND, c);
	/* woken (signal, broadcast or spuriously): re-acquire the mutex */
	Obj *o = obj(m, 1);
	while (o->locked) { block(ST_MUTEX, m); o = obj(m, 1); }
	o->locked = 1; o->owner = me;
	return 0;
}
int pthread_cond_timedwait(pthread_cond_t *c, pthread_mutex_t *m, const struct timespec *ts) {
	(void)ts;
	return pthread_cond_wait(c, m);
}
int pthread_cond_signal(pthread_cond_t *c) {
	init();
	point();
	int w[MAXTH], n = 0;
	for (int i = 0; i < nth; i++) if (ths[i].state == ST_COND && ths[i].waitobj == c) w[n++] = i;
	if (n > 0) ths[w[rnd() % n]].state = ST_RUN; /* POSIX leaves the choice open */
	point();
	return 0;
}
int pthread_cond_broadcast(pthread_cond_t *c) {
	init();
	point();
	wake_all(ST_COND, c);
	point();
	return 0;
}

/* ---- once ------------------------------------------------------------------------------ */

int pthread_once(pthread_once_t *oc, void (*f)(void)) {
	init();
	point();
	Obj *o = obj(oc, 3);
	while (o->oncestate == 1) { block(ST_ONCE, oc); o = obj(oc, 3); }
	if (o->oncestate == 2) return 0;
	o->oncestate = 1;
	f();
	o = obj(oc, 3);
	o->oncestate = 2;
	wake_all(ST_ONCE, oc);
	return 0;
}

/* ---- semaphores (bdwgc's thread start handshake uses them) -------------------------------- */

int sem_init(sem_t *s, int pshared, unsigned v) {
	(void)pshared; init();
	dropobj(s, 4);
	obj(s, 4)->count = (int)v;
	return 0;
}
int sem_destroy(sem_t *s) { init(); dropobj(s, 4); return 0; }
int sem_wait(sem_t *s) {
	init();
	point();
	Obj *o = obj(s, 4);
	while (o->count == 0) {
		if (!active) { dprintf(2, "DETSCHED: sem_wait would block before any thread exists\n"); _exit(98); }
		block(ST_SEM, s);
		o = obj(s, 4);
	}
	o->count--;
	return 0;
}
int sem_trywait(sem_t *s) {
	init();
	Obj *o = obj(s, 4);
	if (o->count == 0) { errno = EAGAIN; return -1; }
	o->count--;
	return 0;
}
int sem_post(sem_t *s) {
	init();
	point();
	obj(s, 4)->count++;
	wake_all(ST_SEM, s);
	point(); /* the thread just released may run before the poster continues */
	return 0;
}
