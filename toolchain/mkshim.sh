#!/bin/bash
# mkshim.sh <outdir>: materialise the tool directory llgo needs in this sandbox
# (LLVM 14 only, no lld, no -dev packages for bdwgc/libunwind/libuv).
# Never writes through an existing path: every file is removed first.
set -e
OUT=${1:?outdir}
mkdir -p "$OUT/bin" "$OUT/include" "$OUT/lib"
LLVMBIN=/usr/lib/llvm-14/bin
wr() { rm -f "$1"; cat > "$1"; chmod +x "$1"; }
wr "$OUT/bin/llvm-config" <<EOF
#!/bin/sh
# answers of Debian's llvm-14 llvm-config, with --bindir pointing at the shim
for a in "\$@"; do case "\$a" in
  --version) echo 14.0.6;;
  --bindir) echo $OUT/bin;;
  --libdir) echo /usr/lib/llvm-14/lib;;
  --includedir) echo /usr/lib/llvm-14/include;;
  --prefix) echo /usr/lib/llvm-14;;
  --cflags|--cppflags) echo "-I/usr/lib/llvm-14/include -D_GNU_SOURCE -D__STDC_CONSTANT_MACROS -D__STDC_FORMAT_MACROS -D__STDC_LIMIT_MACROS";;
  --cxxflags) echo "-I/usr/lib/llvm-14/include -std=c++14 -fno-exceptions -D_GNU_SOURCE -D__STDC_CONSTANT_MACROS -D__STDC_FORMAT_MACROS -D__STDC_LIMIT_MACROS";;
  --ldflags) echo "-L/usr/lib/llvm-14/lib";;
  --libs|--system-libs) echo "-lLLVM-14";;
  --host-target) echo x86_64-pc-linux-gnu;;
  --build-mode) echo RelWithDebInfo;;
  --shared-mode) echo shared;;
  --components) echo all;;
esac; done
EOF
for t in clang clang++; do
wr "$OUT/bin/$t" <<EOF
#!/usr/bin/env python3
import os, sys
args = sys.argv[1:]
out = []
skip = 0
has_ll = any(a.endswith('.ll') for a in args)
i = 0
while i < len(args):
    a = args[i]
    if a == '-fuse-ld=lld' or a == '-Wl,--error-limit=0':
        i += 1; continue
    if a == '-Xlinker' and i + 1 < len(args) and args[i+1].startswith('--icf'):
        i += 2; continue
    if a.startswith('-Wl,--icf'):
        i += 1; continue
    out.append(a); i += 1
extra = ['-I$OUT/include', '-L$OUT/lib', '-Wno-override-module']
if '-c' not in args and '-E' not in args and '-S' not in args:
    # libuv is a stub here: programs that never start an event loop still link
    extra += ['-Wl,-rpath,$OUT/lib', '-Wl,--unresolved-symbols=ignore-all']
if has_ll:
    extra += ['-mllvm', '-opaque-pointers']
os.execv('$LLVMBIN/$t', ['$t'] + extra + out)
EOF
done
for t in llvm-ar llvm-nm llvm-objcopy llvm-ranlib llvm-readelf llvm-strip llvm-objdump llvm-link llc opt; do
  [ -x "$LLVMBIN/$t" ] && { rm -f "$OUT/bin/$t"; ln -s "$LLVMBIN/$t" "$OUT/bin/$t"; }
done
rm -f "$OUT/include/libunwind.h"; cat > "$OUT/include/libunwind.h" <<'EOF'
/* stub libunwind.h: declarations only (no -dev package in this sandbox) */
#ifndef VERIF_LIBUNWIND_H
#define VERIF_LIBUNWIND_H
#include <stdint.h>
#include <stddef.h>
typedef uint64_t unw_word_t;
typedef struct { uint64_t opaque[128]; } unw_context_t;
typedef struct { uint64_t opaque[140]; } unw_cursor_t;
#define UNW_REG_IP (-1)
#define UNW_REG_SP (-2)
int unw_getcontext(unw_context_t *);
int unw_init_local(unw_cursor_t *, unw_context_t *);
int unw_step(unw_cursor_t *);
int unw_get_reg(unw_cursor_t *, int, unw_word_t *);
int unw_get_proc_name(unw_cursor_t *, char *, size_t, unw_word_t *);
#endif
EOF
rm -f "$OUT/include/uv.h"; cat > "$OUT/include/uv.h" <<'EOF'
/* stub uv.h: just enough for runtime/internal/clite/libuv/_wrap/libuv.c to
 * compile (no libuv-dev in this sandbox); sizes are generous upper bounds */
#ifndef VERIF_UV_H
#define VERIF_UV_H
#include <stdint.h>
#include <stddef.h>
typedef struct uv_loop_s { char opaque[1024]; } uv_loop_t;
typedef struct uv_async_s { char opaque[256]; } uv_async_t;
typedef struct uv_timer_s { char opaque[256]; } uv_timer_t;
typedef struct uv_signal_s { char opaque[256]; } uv_signal_t;
typedef struct uv__io_s { void *cb; void *pq[2]; void *wq[2]; unsigned pevents, events; int fd; } uv__io_t;
typedef struct uv_tcp_s { char opaque[136]; uv__io_t io_watcher; char more[128]; } uv_tcp_t;
typedef void (*uv_async_cb)(uv_async_t *);
typedef void (*uv_timer_cb)(uv_timer_t *);
typedef void (*uv_signal_cb)(uv_signal_t *, int);
int uv_async_init(uv_loop_t *, uv_async_t *, uv_async_cb);
int uv_timer_start(uv_timer_t *, uv_timer_cb, uint64_t, uint64_t);
int uv_signal_start(uv_signal_t *, uv_signal_cb, int);
int uv_signal_start_oneshot(uv_signal_t *, uv_signal_cb, int);
#endif
EOF
# link-time names for runtime libraries that exist only as .so.N here
lnk() { rm -f "$OUT/lib/$2"; [ -e "$1" ] && ln -s "$1" "$OUT/lib/$2" || true; }
lnk /usr/lib/x86_64-linux-gnu/libgc.so.1 libgc.so
# libunwind: a stub with the plain unw_* names (stack traces are of no interest
# here; the installed libunwind.so.8 only exports target-prefixed symbols)
rm -f "$OUT/lib/libunwind.so"
# shared stubs, found at run time through the rpath the clang wrapper adds
mkstub() { # name, C source
  rm -f "$OUT/lib/lib$1.a" "$OUT/lib/$1stub.c" "$OUT/lib/$1stub.o" "$OUT/lib/lib$1.so"
  echo "$2" > "$OUT/lib/$1stub.c"
  /usr/lib/llvm-14/bin/clang -shared -fPIC -o "$OUT/lib/lib$1.so" "$OUT/lib/$1stub.c"
}
mkstub uv 'void verif_uv_stub(void){}'
mkstub unwind 'int unw_getcontext(void*a){return -1;} int unw_init_local(void*a,void*b){return -1;} int unw_step(void*a){return 0;} int unw_get_reg(void*a,int b,void*c){return -1;} int unw_get_proc_name(void*a,char*b,unsigned long c,void*d){return -1;}'
echo "$OUT"
